//go:build verif

// Package errgroup is an API-compatible stand-in for golang.org/x/sync/errgroup.
// Under an active vsched scheduler, Go registers a cooperative thread and Go/Wait are
// scheduling points; otherwise it behaves like the original (goroutines + WaitGroup).
package errgroup

import (
	"context"
	"sync"

	"github.com/tdakkota/docker-logql/internal/zzverif/vsched"
)

// Group mirrors errgroup.Group.
type Group struct {
	cancel func(error)

	wg      sync.WaitGroup
	sem     chan struct{}
	errOnce sync.Once
	err     error

	// cooperative mode
	pending int
}

// WithContext mirrors errgroup.WithContext.
func WithContext(ctx context.Context) (*Group, context.Context) {
	ctx, cancel := context.WithCancelCause(ctx)
	return &Group{cancel: cancel}, ctx
}

func (g *Group) done() {
	if g.sem != nil {
		<-g.sem
	}
	g.wg.Done()
}

func (g *Group) fail(err error) {
	g.errOnce.Do(func() {
		g.err = err
		if g.cancel != nil {
			g.cancel(g.err)
		}
	})
}

// Wait mirrors errgroup.Group.Wait.
func (g *Group) Wait() error {
	if s := vsched.Active(); s != nil {
		s.BlockUntil("wait", func() bool { return g.pending == 0 })
	} else {
		g.wg.Wait()
	}
	if g.cancel != nil {
		g.cancel(g.err)
	}
	return g.err
}

// Go mirrors errgroup.Group.Go.
func (g *Group) Go(f func() error) {
	if s := vsched.Active(); s != nil {
		g.pending++
		s.Spawn(func() {
			defer func() { g.pending-- }()
			if err := f(); err != nil {
				g.fail(err)
			}
		})
		return
	}
	if g.sem != nil {
		g.sem <- struct{}{}
	}
	g.wg.Add(1)
	go func() {
		defer g.done()
		if err := f(); err != nil {
			g.fail(err)
		}
	}()
}

// TryGo mirrors errgroup.Group.TryGo.
func (g *Group) TryGo(f func() error) bool {
	if vsched.Active() != nil {
		g.Go(f)
		return true
	}
	if g.sem != nil {
		select {
		case g.sem <- struct{}{}:
		default:
			return false
		}
	}
	g.wg.Add(1)
	go func() {
		defer g.done()
		if err := f(); err != nil {
			g.fail(err)
		}
	}()
	return true
}

// SetLimit mirrors errgroup.Group.SetLimit (ignored in cooperative mode).
func (g *Group) SetLimit(n int) {
	if n < 0 {
		g.sem = nil
		return
	}
	g.sem = make(chan struct{}, n)
}
