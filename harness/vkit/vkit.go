//go:build verif

// Package vkit is the worker-side plumbing shared by all verification harnesses:
// sharding, counters, samples, violations (with replayable inputs), known-finding
// attribution and the per-shard result file merged by tools/vcheck.
package vkit

import (
	"encoding/json"
	"flag"
	"fmt"
	"hash/fnv"
	"os"
	"runtime"
	"sort"
	"strings"
	"sync"
	"sync/atomic"
	"time"
	"unicode/utf8"

	"bytes"
	"encoding/base64"
	"encoding/gob"
	"github.com/tdakkota/docker-logql/internal/zzverif/vsched"
	"reflect"
)

// Violation is one counterexample, replayable from Input (+ Choices).
type Violation struct {
	Property    string          `json:"property"`
	Check       string          `json:"check"`
	Input       json.RawMessage `json:"input"`
	Choices     []int           `json:"choices,omitempty"`
	Observed    any             `json:"observed"`
	Expected    any             `json:"expected"`
	Explanation string          `json:"explanation"`
	// Where it was found: a violation that depends on what the same process executed before (state carried
	// between evaluations) only reproduces by re-running that shard.
	Tier    string `json:"tier,omitempty"`
	Shard   int    `json:"shard"`
	NShards int    `json:"nshards,omitempty"`
	Seed    int    `json:"seed"`
	// MapRot: the fixed hash-map iteration order the worker ran under (0 = canonical; see vsched.DefaultRot).
	MapRot int `json:"map_rot,omitempty"`
	// InputGob: the input again, gob-encoded (base64), present only when the JSON form above does not decode
	// back to the same value (strings that are not valid UTF-8): a replay then uses exactly the bytes explored.
	InputGob string `json:"input_gob,omitempty"`
}

// losslessGob returns the gob form of input when its JSON form raw is lossy, "" otherwise.
func losslessGob(input any, raw []byte) string {
	t := reflect.TypeOf(input)
	if t == nil {
		return ""
	}
	back := reflect.New(t)
	if err := json.Unmarshal(raw, back.Interface()); err == nil && reflect.DeepEqual(back.Elem().Interface(), input) {
		return ""
	}
	var buf bytes.Buffer
	if err := gob.NewEncoder(&buf).EncodeValue(reflect.ValueOf(input)); err != nil {
		return ""
	}
	return base64.StdEncoding.EncodeToString(buf.Bytes())
}

// DecodeInput fills ptr with the input of a recorded violation, byte-exactly.
func DecodeInput(v Violation, ptr any) error {
	if v.InputGob != "" {
		b, err := base64.StdEncoding.DecodeString(v.InputGob)
		if err != nil {
			return err
		}
		return gob.NewDecoder(bytes.NewReader(b)).Decode(ptr)
	}
	return json.Unmarshal(v.Input, ptr)
}

// KnownHit counts inputs attributed to a listed known finding.
type KnownHit struct {
	Count   int64 `json:"count"`
	Example any   `json:"example"`
}

// Result is what one worker (shard) reports.
type Result struct {
	Property    string               `json:"property"`
	Tier        string               `json:"tier"`
	Shard       int                  `json:"shard"`
	NShards     int                  `json:"nshards"`
	Seed        int                  `json:"seed"`
	Evaluations int64                `json:"evaluations"`
	Nontrivial  int64                `json:"distinct_nontrivial"`
	States      int64                `json:"states"`
	Transitions int64                `json:"transitions"`
	Traces      int64                `json:"traces_validated_against_impl"`
	Exhaustive  bool                 `json:"exhaustive"`
	Caps        []string             `json:"caps"`
	Samples     []any                `json:"samples"`
	Violations  []Violation          `json:"violations"`
	NViolations int64                `json:"n_violations"`
	Known       map[string]*KnownHit `json:"known"`
	Counters    map[string]int64     `json:"counters"`
	Notes       map[string]string    `json:"notes"`
	HarnessErr  string               `json:"harness_error,omitempty"`
	WallS       float64              `json:"wall_s"`
}

// Run is the context handed to a check.
type Run struct {
	journal string
	// replaying: the violation a replay run was started for
	replaying *Violation
	// progress / current case, for the stall watchdog
	progress  atomic.Int64
	curMu     sync.Mutex
	curCheck  string
	curInput  any
	curChoice []int
	outPath   string
	Result
	known    map[string]bool
	states   map[uint64]struct{}
	start    time.Time
	budget   time.Duration
	capped   bool
	maxViol  int
	maxSampl int
}

// Check is one property check hosted by a harness binary.
type Check struct {
	// Run enumerates the (sharded) space and evaluates every case.
	Run func(r *Run)
	// Replay re-executes one recorded violation and returns the violation it reproduces (nil if none).
	Replay func(r *Run, v Violation) *Violation
}

// Thorough reports whether the thorough tier was requested.
func (r *Run) Thorough() bool { return r.Tier == "thorough" }

// Mine tells whether case idx belongs to this shard.
func (r *Run) Mine(idx int) bool {
	if r.NShards <= 1 {
		return true
	}
	return (idx+r.Seed)%r.NShards == r.Shard
}

// Eval counts one execution of the implementation compared with the oracle.
func (r *Run) Eval() { r.Evaluations++; r.Traces++; r.progress.Add(1) }

// Begin names the case about to be executed. If the implementation then does not return (the worker makes
// no progress for StallSeconds), the watchdog reports exactly this case as a violation: "evaluation
// terminates" is part of every property that speaks about results.
func (r *Run) Begin(check string, input any) {
	r.curMu.Lock()
	r.curCheck, r.curInput, r.curChoice = check, input, nil
	r.curMu.Unlock()
	r.progress.Add(1)
}

// BeginChoices is Begin with the forced choice vector of the execution.
func (r *Run) BeginChoices(check string, input any, choices []int) {
	r.curMu.Lock()
	r.curCheck, r.curInput, r.curChoice = check, input, choices
	r.curMu.Unlock()
	r.progress.Add(1)
}

// StallSeconds is how long a worker may go without finishing any execution before the watchdog fires.
var StallSeconds = 90

func (r *Run) watchdog(replay bool) {
	last := r.progress.Load()
	idle := 0
	for {
		time.Sleep(3 * time.Second)
		cur := r.progress.Load()
		if cur != last {
			last, idle = cur, 0
			continue
		}
		idle += 3
		if idle < StallSeconds {
			continue
		}
		r.curMu.Lock()
		check, input, choices := r.curCheck, r.curInput, r.curChoice
		r.curMu.Unlock()
		if input == nil && replay && r.replaying != nil {
			// a replay function that did not name its case: the case is the violation being replayed
			v := *r.replaying
			v.Check, v.Observed = strings.TrimSuffix(v.Check, "/termination")+"/termination", fmt.Sprintf("no return within %d s", StallSeconds)
			v.Explanation = "the implementation did not return from this case (infinite loop or deadlock)"
			fmt.Println("REPLAY: violation reproduced")
			enc := json.NewEncoder(os.Stdout)
			enc.SetIndent("", " ")
			_ = enc.Encode(v)
			os.Exit(1)
		}
		if input == nil {
			continue // not inside a named case: the harness itself is busy (enumeration, sorting)
		}
		raw, _ := json.Marshal(input)
		v := Violation{Tier: r.Tier, Shard: r.Shard, NShards: r.NShards, Seed: r.Seed, MapRot: vsched.DefaultRot, Property: r.Property, Check: check + "/termination", Input: raw, InputGob: losslessGob(input, raw), Choices: choices,
			Observed: fmt.Sprintf("no return within %d s", StallSeconds), Expected: "the evaluation returns a result or an error",
			Explanation: "the implementation did not return from this case (infinite loop or deadlock)"}
		if replay {
			fmt.Println("REPLAY: violation reproduced")
			enc := json.NewEncoder(os.Stdout)
			enc.SetIndent("", " ")
			_ = enc.Encode(v)
			os.Exit(1)
		}
		r.NViolations++
		r.Violations = append(r.Violations, v)
		r.Exhaustive = false
		r.Caps = append(r.Caps, "worker stopped: an evaluation did not return")
		r.WallS = time.Since(r.start).Seconds()
		if data, err := json.Marshal(&r.Result); err == nil && r.outPath != "" {
			_ = os.WriteFile(r.outPath, data, 0o644)
		}
		os.Exit(1)
	}
}

// Step counts n explored choice points / transitions.
func (r *Run) Step(n int) { r.Transitions += int64(n) }

// NonTrivial counts one distinct non-trivial case.
func (r *Run) NonTrivial() { r.Nontrivial++ }

// Count bumps a named counter.
func (r *Run) Count(name string, n int64) { r.Counters[name] += n }

// Note records a string fact (last write wins).
func (r *Run) Note(name, v string) { r.Notes[name] = v }

// State records a distinct canonical state/observation (deduplicated by hash inside the shard).
func (r *Run) State(key string) bool {
	h := fnv.New64a()
	_, _ = h.Write([]byte(key))
	k := h.Sum64()
	if _, ok := r.states[k]; ok {
		return false
	}
	r.states[k] = struct{}{}
	r.States++
	return true
}

// Sample keeps a few actual cases for the evidence file.
func (r *Run) Sample(x any) {
	if len(r.Samples) < r.maxSampl {
		r.Samples = append(r.Samples, x)
	}
}

// WantSample tells whether another sample would be kept.
func (r *Run) WantSample() bool { return len(r.Samples) < r.maxSampl }

// IsKnown reports whether finding id is listed as known (status "known") for this property.
func (r *Run) IsKnown(id string) bool { return r.known[id] }

// Fail records a violation unless it is attributed to a listed known finding.
// finding may be "" (no attribution attempted).
func (r *Run) Fail(check string, input any, choices []int, observed, expected any, explanation, finding string) {
	if finding != "" && r.known[finding] {
		h := r.Known[finding]
		if h == nil {
			h = &KnownHit{Example: map[string]any{"input": jsonSafe(input), "observed": jsonSafe(observed), "expected": jsonSafe(expected), "explanation": explanation}}
			r.Known[finding] = h
		}
		h.Count++
		return
	}
	r.NViolations++
	if len(r.Violations) >= r.maxViol {
		return
	}
	raw, err := json.Marshal(input)
	if err != nil {
		raw, _ = json.Marshal(fmt.Sprintf("%+v", input))
	}
	if finding != "" {
		explanation += " [class " + finding + ", not listed as known]"
	}
	observed, expected = jsonSafe(observed), jsonSafe(expected)
	r.Violations = append(r.Violations, Violation{
		Property: r.Property, Check: check, Input: raw, Choices: choices,
		Observed: observed, Expected: expected, Explanation: explanation,
		Tier: r.Tier, Shard: r.Shard, NShards: r.NShards, Seed: r.Seed, MapRot: vsched.DefaultRot,
		InputGob: losslessGob(input, raw),
	})
}

// jsonSafe makes sure x can be marshalled (NaN/Inf floats cannot): otherwise it is rendered as text.
func jsonSafe(x any) any {
	if _, err := json.Marshal(x); err != nil {
		return fmt.Sprintf("%+v", x)
	}
	return x
}

// Stop reports whether the check should stop (budget exceeded or enough violations).
func (r *Run) Stop() bool {
	if r.NViolations >= int64(r.maxViol) {
		return true
	}
	if r.capped {
		return true
	}
	if r.budget > 0 && r.Evaluations&0xff == 0 && time.Since(r.start) > r.budget {
		r.Cap(fmt.Sprintf("time budget %s reached", r.budget))
	}
	return r.capped
}

// Cap records that a cap was hit: the run is no longer exhaustive.
func (r *Run) Cap(why string) {
	r.capped = true
	r.Exhaustive = false
	r.Caps = append(r.Caps, why)
}

// HarnessError aborts the worker with exit 2 (never a verdict).
func (r *Run) HarnessError(format string, args ...any) {
	r.HarnessErr = fmt.Sprintf(format, args...)
	panic(harnessAbort{})
}

type harnessAbort struct{}

// Main is the entry point of a harness binary.
func Main(checks map[string]Check) { MainArgs(os.Args[1:], checks) }

// MainArgs is Main with explicit arguments (used by the package-main test binary).
func MainArgs(args []string, checks map[string]Check) {
	fs := flag.NewFlagSet("harness", flag.ExitOnError)
	var (
		prop    = fs.String("prop", "", "property id")
		tier    = fs.String("tier", "quick", "quick|thorough")
		shard   = fs.Int("shard", 0, "shard index")
		nshards = fs.Int("nshards", 1, "number of shards")
		out     = fs.String("out", "", "result file")
		known   = fs.String("known", "", "comma-separated known finding ids")
		replay  = fs.String("replay", "", "replay file")
		budget  = fs.Duration("budget", 0, "time budget")
		seed    = fs.Int("seed", 0, "seed (permutes shard assignment only)")
		list    = fs.Bool("list", false, "list hosted properties")
		maprot  = fs.Int("maprot", 0, "fixed hash-map iteration order outside explorations (0 = canonical)")
	)
	_ = fs.Parse(args)
	vsched.DefaultRot = *maprot
	if *list {
		var ids []string
		for id := range checks {
			ids = append(ids, id)
		}
		sort.Strings(ids)
		fmt.Println(strings.Join(ids, " "))
		return
	}
	r := &Run{
		known:    map[string]bool{},
		states:   map[uint64]struct{}{},
		start:    time.Now(),
		budget:   *budget,
		maxViol:  10,
		maxSampl: 4,
	}
	r.Known = map[string]*KnownHit{}
	r.Counters = map[string]int64{}
	r.Notes = map[string]string{}
	r.Exhaustive = true
	r.Tier, r.Shard, r.NShards, r.Seed = *tier, *shard, *nshards, *seed
	for _, k := range strings.Split(*known, ",") {
		if k != "" {
			r.known[k] = true
		}
	}

	if *replay != "" {
		data, err := os.ReadFile(*replay)
		if err != nil {
			fmt.Fprintln(os.Stderr, "read replay:", err)
			os.Exit(2)
		}
		var v Violation
		if err := json.Unmarshal(data, &v); err != nil {
			fmt.Fprintln(os.Stderr, "parse replay:", err)
			os.Exit(2)
		}
		c, ok := checks[v.Property]
		if !ok || c.Replay == nil {
			fmt.Fprintln(os.Stderr, "no replay for", v.Property)
			os.Exit(2)
		}
		r.Property = v.Property
		vsched.DefaultRot = v.MapRot
		r.known = map[string]bool{} // a replay never hides behind the known list
		r.replaying = &v
		go r.watchdog(true)
		var got *Violation
		func() {
			defer func() {
				if p := recover(); p != nil {
					if _, ok := p.(harnessAbort); ok {
						panic(p)
					}
					origin, repo := panicOrigin()
					if !repo {
						panic(p)
					}
					pv := v
					pv.Observed = fmt.Sprintf("panic: %v (in %s)", p, origin)
					pv.Explanation = fmt.Sprintf("the implementation panicked in this case: %v (in %s)", p, origin)
					got = &pv
				}
			}()
			got = c.Replay(r, v)
		}()
		enc := json.NewEncoder(os.Stdout)
		enc.SetIndent("", " ")
		if got == nil {
			fmt.Println("REPLAY: no violation reproduced")
			os.Exit(0)
		}
		fmt.Println("REPLAY: violation reproduced")
		_ = enc.Encode(got)
		os.Exit(1)
	}

	c, ok := checks[*prop]
	if !ok {
		fmt.Fprintln(os.Stderr, "unknown property", *prop)
		os.Exit(2)
	}
	r.Property = *prop
	if *out != "" {
		r.journal = *out + ".journal"
		_ = os.Remove(r.journal)
		r.outPath = *out
	}
	go r.watchdog(false)
	code := 0
	func() {
		defer func() {
			if p := recover(); p != nil {
				if _, ok := p.(harnessAbort); ok {
					code = 2
					return
				}
				// A panic that started in the code under test (not in the harness) while a named case was running is a
				// violation of that case: "does not panic" is part of every property that speaks about results. The
				// worker stops there; what it had not reached yet is reported as not explored.
				if origin, repo := panicOrigin(); repo {
					r.curMu.Lock()
					check, input, choices := r.curCheck, r.curInput, r.curChoice
					r.curMu.Unlock()
					if input != nil {
						raw, _ := json.Marshal(input)
						r.NViolations++
						r.Violations = append(r.Violations, Violation{Tier: r.Tier, Shard: r.Shard, NShards: r.NShards, Seed: r.Seed, MapRot: vsched.DefaultRot, Property: r.Property,
							Check: check, Input: raw, InputGob: losslessGob(input, raw), Choices: choices,
							Observed: fmt.Sprintf("panic: %v (in %s)", p, origin), Expected: "a result or an error",
							Explanation: fmt.Sprintf("the implementation panicked in this case: %v (in %s)", p, origin)})
						r.Exhaustive = false
						r.Caps = append(r.Caps, "worker stopped: the implementation panicked")
						return
					}
				}
				panic(p)
			}
		}()
		c.Run(r)
	}()
	r.WallS = time.Since(r.start).Seconds()
	if r.Caps == nil {
		r.Caps = []string{}
	}
	data, err := json.Marshal(&r.Result)
	if err != nil {
		fmt.Fprintln(os.Stderr, "marshal result:", err)
		os.Exit(2)
	}
	if *out == "" {
		fmt.Println(string(data))
	} else if err := os.WriteFile(*out, data, 0o644); err != nil {
		fmt.Fprintln(os.Stderr, "write result:", err)
		os.Exit(2)
	}
	if r.journal != "" {
		_ = os.Remove(r.journal)
	}
	if code == 0 && r.NViolations > 0 {
		code = 1
	}
	os.Exit(code)
}

// panicOrigin walks the stack of a recovered panic: the first frame outside the Go runtime and standard library tells
// whether the panic started in the code under test (repo = true) or in the harness.
func panicOrigin() (origin string, repo bool) {
	pcs := make([]uintptr, 64)
	n := runtime.Callers(3, pcs)
	frames := runtime.CallersFrames(pcs[:n])
	goroot := runtime.GOROOT()
	for {
		f, more := frames.Next()
		std := strings.HasPrefix(f.File, goroot) || strings.HasPrefix(f.Function, "runtime.") || !strings.Contains(f.Function, ".") || (!strings.Contains(f.Function, "/") && !strings.HasPrefix(f.Function, "main."))
		if !std {
			harness := strings.Contains(f.File, "zzverif") || strings.Contains(f.File, "zz_verif_") || strings.Contains(f.File, "/verif/harness/") || strings.Contains(f.Function, "/zzverif/")
			return fmt.Sprintf("%s %s:%d", f.Function, f.File, f.Line), !harness && strings.Contains(f.Function, "tdakkota/docker-logql")
		}
		if !more {
			return "", false
		}
	}
}

// ReplayOne is a helper for Check.Replay implementations: run f, return the first violation recorded.
func ReplayOne(r *Run, f func()) *Violation {
	before := len(r.Violations)
	f()
	if len(r.Violations) > before {
		return &r.Violations[before]
	}
	return nil
}

// J marshals x compactly for use as a state key / sample.
func J(x any) string {
	b, err := json.Marshal(x)
	if err != nil {
		return fmt.Sprintf("%+v", x)
	}
	return string(b)
}

// Journal notes the case about to be executed in <out>.journal, so that the driver can name the input
// when the worker is killed by a fatal runtime error (stack exhaustion, out of memory, runtime throw)
// that recover() cannot intercept.
func (r *Run) Journal(check string, input any) {
	if r.journal == "" {
		return
	}
	raw, err := json.Marshal(input)
	if err != nil {
		return
	}
	v := Violation{Property: r.Property, Check: check, Input: raw, Explanation: "worker died while executing this case", MapRot: vsched.DefaultRot}
	if !utf8.Valid(raw) || bytes.Contains(raw, []byte("\\ufffd")) {
		v.InputGob = losslessGob(input, raw) // (cheap test first: the journal is written before every case)
	}
	data, _ := json.Marshal(v)
	_ = os.WriteFile(r.journal, data, 0o644)
}

// GlobalState records a state that every shard meets (counted once, by shard 0).
func (r *Run) GlobalState(key string) {
	if r.Shard == 0 {
		r.State(key)
	}
}
