//go:build verif

package main

import (
	"bytes"
	"context"
	"fmt"
	"runtime"
	"sort"
	"strings"
	"sync/atomic"
	"time"

	"go.opentelemetry.io/otel/trace/noop"

	"github.com/tdakkota/docker-logql/internal/dockerlog"
	"github.com/tdakkota/docker-logql/internal/logql/logqlengine"
	"github.com/tdakkota/docker-logql/internal/lokiapi"
	"github.com/tdakkota/docker-logql/internal/otelstorage"
	"github.com/tdakkota/docker-logql/internal/zzverif/fakedocker"
	"github.com/tdakkota/docker-logql/internal/zzverif/vkit"
	"github.com/tdakkota/docker-logql/internal/zzverif/vsched"
)

const c18sec = int64(1e9)

type c18Scenario struct {
	name   string
	n      int
	same   bool // every record of a container carries the same message (samples share a series)
	ties   bool // records of different containers share timestamps (rendering is then not compared)
	labels func(i int) map[string]string
	msg    func(i, j int) string // message of record j of container i (default: m<i>-<j>)
	// created: creation time of container i in unix seconds (default 0); the fake daemon of such a scenario answers
	// with the frames inside the requested window only, as the daemon does
	created func(i int) int64
	// stamp: the timestamp text of record j of container i, when it is not the regular one ("" = regular)
	stamp func(i, j int) string
	// light: explored under the quick tier's bounds in the thorough tier too (two selections of three containers each,
	// or many steps: every interleaving, or two deviations among hundreds of choice points, is out of reach)
	light bool
	query   string
	params  logqlengine.EvalParams
}

func c18Range() logqlengine.EvalParams {
	return logqlengine.EvalParams{Start: otelstorage.Timestamp(1 * c18sec), End: otelstorage.Timestamp(5 * c18sec), Step: 2 * time.Second, Limit: -1}
}

func c18Log() logqlengine.EvalParams {
	return logqlengine.EvalParams{Start: 0, End: otelstorage.Timestamp(10 * c18sec), Step: time.Second, Limit: -1}
}

var c18Scenarios = []c18Scenario{
	{name: "log-3", n: 3, query: `{}`, params: c18Log()},
	// one container: its lines still form several streams (msg is a label), which the engine returns in map order
	{name: "log-1", n: 1, query: `{}`, params: c18Log()},
	{name: "count-1", n: 1, query: `count_over_time({}[2s])`, params: c18Range()},
	{name: "count-3", n: 3, query: `count_over_time({}[2s])`, params: c18Range()},
	{name: "sumby-3", n: 3, query: `sum by (container_image) (count_over_time({}[2s]))`, params: c18Range()},
	// grouped topk with two groups, one of them holding two series (values pairwise distinct: no ties to break); windows
	// longer than the step; a ratio of two vectors of three series each
	{name: "topk-groups-3", n: 3, light: true, msg: func(i, j int) string { return strings.Repeat("x", 1+i) }, query: `topk by (container_image) (1, bytes_over_time({}[4s]))`, params: c18Range()},
	{name: "count-sliding-3", n: 3, light: true, query: `count_over_time({}[3s])`, params: logqlengine.EvalParams{Start: otelstorage.Timestamp(1 * c18sec), End: otelstorage.Timestamp(6 * c18sec), Step: time.Second, Limit: -1}},
	{name: "ratio-3", n: 3, light: true, query: `sum by (container) (count_over_time({} |= "-1" [4s])) / sum by (container) (count_over_time({}[4s]))`, params: c18Range()},
	{name: "binop-2", n: 2, query: `sum by (container) (count_over_time({}[2s])) * sum by (container) (count_over_time({} |= "m"[4s]))`, params: c18Range()},
	{name: "colliding-labels-2", n: 2, query: `{a_b=~".+"}`, params: c18Log(), labels: func(i int) map[string]string {
		return map[string]string{"a.b": "dot", "a-b": "dash", "a/b": "slash"}
	}},
	{name: "many-labels-3", n: 3, query: `{} | keep container, l3`, params: c18Log(), labels: func(i int) map[string]string {
		m := map[string]string{}
		for k := 0; k < 12; k++ {
			m[fmt.Sprintf("l%d", k)] = fmt.Sprintf("v%d-%d", i, k)
		}
		return m
	}},
	{name: "log-5", n: 5, query: `{}`, params: c18Log()},
	{name: "tie-limit-3", n: 3, ties: true, query: `{}`, params: logqlengine.EvalParams{Start: 0, End: otelstorage.Timestamp(10 * c18sec), Step: time.Second, Limit: 2}},
	{name: "tie-distinct-3", n: 3, ties: true, same: true, query: `{} | distinct msg`, params: c18Log()},
	{name: "tie-first-3", n: 3, ties: true, query: `first_over_time({} | label_format v="{{ __line__ | trimPrefix \"m\" | trunc 1 }}" | unwrap v [10s]) by (container_state)`, params: logqlengine.EvalParams{Start: otelstorage.Timestamp(5 * c18sec), End: otelstorage.Timestamp(5 * c18sec), Limit: -1}},
	{name: "log-samemsg-2", n: 2, same: true, query: `{}`, params: c18Log()},
	{name: "log-dropmsg-3", n: 3, query: `{} | drop msg, container_id`, params: c18Log()},
	// the label the container column is taken from is gone, or renamed
	{name: "log-dropcontainer-3", n: 3, query: `{} | drop container`, params: c18Log()},
	{name: "log-renamecontainer-2", n: 2, query: `{} | label_format ctr=container | drop container_name`, params: c18Log()},
	{name: "count-samemsg-2", n: 2, same: true, query: `count_over_time({}[4s])`, params: c18Range()},
	{name: "max-samemsg-2", n: 2, same: true, query: `max(count_over_time({}[4s])) by (container, msg)`, params: c18Range()},
	// one series is NaN: whatever max/min make of it, they make the same of it in every arrival order
	{name: "max-nan-3", n: 3, msg: c18NaNMsg, query: `max(sum_over_time({} | logfmt | drop msg | unwrap v [4s]))`, params: c18Range()},
	// two (three) labels extracted from the same JSON path, and from a path and its parent
	{name: "json-same-path-2", n: 2, msg: c18JSONMsg, query: `{} | json a="req", b="req", c="req.id", d="req.id" | drop msg`, params: c18Log()},
	{name: "json-same-path-count-2", n: 2, msg: c18JSONMsg, query: `sum by (a, b, c) (count_over_time({} | json a="code", b="code", c="req.path" [4s]))`, params: c18Range()},
	// a label with an empty value in one stream and no such label in another: two label sets, in every arrival order
	{name: "empty-value-3", n: 3, msg: func(i, j int) string {
		return []string{"level= x=1", "x=1", "level=info x=1"}[i]
	}, query: `sum by (level) (count_over_time({} | logfmt | drop msg [4s]))`, params: c18Range()},
	{name: "empty-value-log-3", n: 3, msg: func(i, j int) string {
		return []string{"level= x=1", "x=1", "level=info x=1"}[(i+j)%3]
	}, query: `{} | logfmt | keep level`, params: c18Log()},
	// distinct over two labels is order sensitive (a record rejected for the first label never records its value of the
	// second): the listed order counts, in every evaluation
	{name: "distinct-two-labels-1", n: 1, msg: func(i, j int) string { return []string{"a=1 b=1", "a=2 b=1", "a=2 b=3"}[j] }, query: `{} | logfmt | distinct a, b`, params: c18Log()},
	{name: "distinct-three-labels-2", n: 2, msg: func(i, j int) string { return []string{"a=1 b=1 c=1", "a=2 b=1 c=2", "a=2 b=3 c=2"}[(i+j)%3] }, query: `count_over_time({} | logfmt | distinct c, a, b [10s])`, params: c18Range()},
	// more labels than any small fixed capacity (9 built-in ones, msg and 30 Docker labels)
	{name: "forty-labels-2", n: 2, query: `{} | drop msg`, params: c18Log(), labels: func(i int) map[string]string {
		m := map[string]string{}
		for k := 0; k < 30; k++ {
			m[fmt.Sprintf("l%02d", k)] = fmt.Sprintf("v%d-%d", i, k)
		}
		return m
	}},
	{name: "forty-labels-count-2", n: 2, query: `sum by (l00, l17, l29, container) (count_over_time({}[4s]))`, params: c18Range(), labels: func(i int) map[string]string {
		m := map[string]string{}
		for k := 0; k < 30; k++ {
			m[fmt.Sprintf("l%02d", k)] = fmt.Sprintf("v%d-%d", i, k)
		}
		return m
	}},
	// a frame whose timestamp cannot be read: whatever the answer is (an error), it is the same answer every time
	{name: "bad-stamp-2", n: 2, query: `{}`, params: c18Log(), stamp: func(i, j int) string {
		if i == 1 && j == 1 {
			return "yesterday"
		}
		return ""
	}},
	// two fields of a line renamed onto one label: whichever wins, it wins every time
	{name: "logfmt-two-onto-one-2", n: 2, msg: func(i, j int) string { return fmt.Sprintf("level=l%d severity=s%d x=%d", i, j, i+j) }, query: `{} | logfmt lvl="level", lvl="severity" | keep lvl, container`, params: c18Log()},
	{name: "json-two-onto-one-count-2", n: 2, msg: func(i, j int) string { return fmt.Sprintf(`{"level":"l%d","severity":"s%d"}`, i, j) }, query: `sum by (lvl) (count_over_time({} | json lvl="level", lvl="severity" [4s]))`, params: c18Range()},
	// containers created inside the queried range (after its start), next to older ones; the daemon honours since/until
	{name: "young-log-3", n: 3, query: `{}`, params: c18Log(), created: func(i int) int64 { return []int64{0, 2, 0}[i] }},
	{name: "young-count-3", n: 3, query: `sum(count_over_time({}[4s]))`, params: c18Range(), created: func(i int) int64 { return []int64{3, 0, 2}[i] }},
	{name: "min-nan-3", n: 3, msg: c18NaNMsg, query: `min(sum_over_time({} | logfmt | drop msg | unwrap v [4s]))`, params: c18Range()},
}

// c18JSONMsg: JSON lines for path expressions; several labels may point at the same object.
func c18JSONMsg(i, j int) string {
	return fmt.Sprintf(`{"req":{"id":%d,"path":"/p%d"},"code":%d}`, i*10+j, j, 200+i)
}

func c18NaNMsg(i, j int) string {
	if i == 1 {
		return "v=NaN"
	}
	return fmt.Sprintf("v=%d", 1+i+j)
}

func c18ByName(n string) c18Scenario {
	for _, s := range c18Scenarios {
		if s.name == n {
			return s
		}
	}
	panic("unknown scenario " + n)
}

func c18Msg(sc c18Scenario, i, j int) string {
	if sc.msg != nil {
		return sc.msg(i, j)
	}
	if sc.same {
		return "same"
	}
	return fmt.Sprintf("m%d-%d", i, j)
}

func c18Containers(sc c18Scenario) []fakedocker.Container {
	var out []fakedocker.Container
	for i := 0; i < sc.n; i++ {
		var recs []fakedocker.Rec
		for j := 0; j < 3; j++ {
			// distinct timestamps across all containers
			ts := int64(1+j)*c18sec + int64(i)*1000 + int64(j)
			if sc.ties {
				ts = int64(1+j) * c18sec
			}
			stamp := fakedocker.TS(ts)
			if sc.stamp != nil && sc.stamp(i, j) != "" {
				stamp = sc.stamp(i, j)
			}
			recs = append(recs, fakedocker.Rec{Stream: byte(1 + j%2), TS: stamp, Msg: c18Msg(sc, i, j)})
		}
		var labels map[string]string
		if sc.labels != nil {
			labels = sc.labels(i)
		}
		var created int64
		if sc.created != nil {
			created = sc.created(i)
		}
		out = append(out, fakedocker.Container{ID: fmt.Sprintf("id%d", i), Name: fmt.Sprintf("/n%d", i), Image: fmt.Sprintf("img%d", i%2), State: "running", Labels: labels, Log: fakedocker.Encode(recs), Created: created})
	}
	return out
}

type c18Input struct {
	Scenario string `json:"scenario"`
	Mode     string `json:"mode"` // threads (all interleavings, default map order), joint (threads+map orders, bounded), perm
	Bound    int    `json:"bound,omitempty"`
	Perm     []int  `json:"perm,omitempty"`
}

type c18Obs struct {
	Result   string   `json:"result"`
	Rendered string   `json:"rendered,omitempty"`
	Err      string   `json:"err,omitempty"`
	Deadlock string   `json:"deadlock,omitempty"`
	Panics   []string `json:"panics,omitempty"`
}

func c18Canon(data lokiapi.QueryResponseData) string {
	var parts []string
	kvs := func(m map[string]string) string {
		var kv []string
		for k, v := range m {
			kv = append(kv, k+"="+v)
		}
		sort.Strings(kv)
		return "{" + strings.Join(kv, ",") + "}"
	}
	switch data.Type {
	case lokiapi.StreamsResultQueryResponseData:
		for _, st := range data.StreamsResult.Result {
			var es []string
			for _, e := range st.Values {
				es = append(es, fmt.Sprintf("%d:%s", e.T, e.V))
			}
			parts = append(parts, kvs(st.Stream.Value)+strings.Join(es, "|"))
		}
	case lokiapi.VectorResultQueryResponseData:
		for _, s := range data.VectorResult.Result {
			parts = append(parts, fmt.Sprintf("%s%v@%v", kvs(s.Metric.Value), s.Value.V, s.Value.T))
		}
	case lokiapi.MatrixResultQueryResponseData:
		for _, s := range data.MatrixResult.Result {
			var ps []string
			for _, p := range s.Values {
				ps = append(ps, fmt.Sprintf("%v@%v", p.V, p.T))
			}
			parts = append(parts, kvs(s.Metric.Value)+strings.Join(ps, "|"))
		}
	}
	sort.Strings(parts)
	return string(data.Type) + "[" + strings.Join(parts, " ; ") + "]"
}

// c18Exec runs Eval (+ render for log results) with thread scheduling and, when mapOrders is set,
// map iteration orders decided by c.
func c18Exec(c *vsched.Ctx, in c18Input, mapOrders bool) (obs c18Obs) {
	sc := c18ByName(in.Scenario)
	ctrs := c18Containers(sc)
	fake := fakedocker.New(ctrs)
	fake.HonourWindow = sc.created != nil
	var data lokiapi.QueryResponseData
	var evalErr error
	body := func() {
		s := vsched.RunMain(c, func() {
			s := vsched.Active()
			type gateT struct {
				gated  map[int]int
				passed []int
			}
			var g *gateT
			if in.Perm != nil {
				g = &gateT{gated: map[int]int{}}
			}
			rank := func(ctr int) int {
				for i, p := range in.Perm {
					if p == ctr {
						return i
					}
				}
				return len(in.Perm) + ctr
			}
			fake.Yield = func(label string) {
				defer vsched.PauseMapOrder()()
				if g != nil && strings.HasPrefix(label, "logs-return:") {
					id := strings.TrimPrefix(label, "logs-return:")
					for i, ct := range ctrs {
						if ct.ID != id {
							continue
						}
						tid := s.ThreadID()
						g.gated[tid] = i
						s.BlockUntil("gate", func() bool {
							if !s.QuiescentExcept(func(t int) bool { _, ok := g.gated[t]; return ok }) {
								return false
							}
							best := -1
							for _, c := range g.gated {
								if best < 0 || rank(c) < rank(best) {
									best = c
								}
							}
							return best == i
						})
						delete(g.gated, tid)
						return
					}
				}
				s.Yield(label)
			}
			q, _ := dockerlog.NewQuerier(fake)
			eng := logqlengine.NewEngine(q, logqlengine.Options{TracerProvider: noop.NewTracerProvider()})
			data, evalErr = eng.Eval(context.Background(), sc.query, sc.params)
		})
		obs.Deadlock, obs.Panics = s.Deadlock, s.Panics
	}
	var rendered bytes.Buffer
	render := func() {
		if evalErr == nil && data.Type == lokiapi.StreamsResultQueryResponseData && !sc.ties {
			if err := renderResult(&rendered, renderOptions{timestamp: true, container: true, color: false}, data); err != nil {
				obs.Err = "render: " + err.Error()
			}
		}
	}
	if mapOrders {
		vsched.WithMapOrder(c, func() { body(); render() })
	} else {
		vsched.WithMapOrder(nil, func() { body(); render() })
	}
	if evalErr != nil {
		obs.Err = evalErr.Error()
		return obs
	}
	obs.Result = c18Canon(data)
	obs.Rendered = rendered.String()
	return obs
}

func c18Scenario1(r *vkit.Run, in c18Input) {
	bound, maps := in.Bound, false
	switch in.Mode {
	case "threads":
		bound = -1
	case "perm":
		bound = 0
	case "joint":
		maps = true
	}
	r.Begin("C18", in)
	ref := c18Exec(vsched.NewCtx(nil), in, maps)
	outcomes := map[string]bool{}
	st := vsched.Explore(bound, 0, func(c *vsched.Ctx) {
		r.BeginChoices("C18", in, c.Prefix())
		obs := c18Exec(c, in, maps)
		r.Eval()
		k := obs.Result + "\x00" + obs.Rendered + "\x00" + obs.Err + obs.Deadlock + strings.Join(obs.Panics, ";")
		outcomes[k] = true
		switch {
		case obs.Deadlock != "" || len(obs.Panics) > 0:
			r.Fail("C18", in, c.TrimmedChoices(), obs, ref, "deadlock or panic: "+obs.Deadlock+strings.Join(obs.Panics, ";"), "")
		case obs.Err != ref.Err || obs.Result != ref.Result:
			r.Fail("C18", in, c.TrimmedChoices(), obs, ref, "the same query over the same logs gives a different result under another schedule / map iteration order", c18Classify(in))
		case obs.Rendered != ref.Rendered:
			r.Fail("C18", in, c.TrimmedChoices(), obs.Rendered, ref.Rendered, "rendered output differs byte-wise under another schedule / map iteration order", "")
		}
		if c.Diverged != "" {
			r.HarnessError("replay divergence: %s", c.Diverged)
		}
	}, func(*vsched.Ctx) bool { return !r.Stop() })
	r.Step(int(st.Points) + 1)
	r.Count("executions", st.Executions)
	if int64(len(outcomes)) > r.Counters["max_distinct_outcomes_per_scenario"] {
		r.Counters["max_distinct_outcomes_per_scenario"] = int64(len(outcomes))
	}
	if int64(st.MaxPoints) > r.Counters["max_choice_points_per_execution"] {
		r.Counters["max_choice_points_per_execution"] = int64(st.MaxPoints)
	}
	if st.Capped {
		r.Cap("exploration stopped early")
	}
	for k := range outcomes {
		r.State(vkit.J(in) + k)
	}
	if st.Executions > 1 {
		r.NonTrivial()
	}
	if r.WantSample() && in.Mode == "joint" {
		r.Sample(map[string]any{"input": in, "query": c18ByName(in.Scenario).query, "executions": st.Executions, "distinct_outcomes": len(outcomes), "result": ref.Result})
	}
}

func c18Classify(in c18Input) string {
	if in.Scenario == "colliding-labels-2" {
		return "C18-colliding-docker-labels-map-order"
	}
	return ""
}

func c18Perms(n int) [][]int {
	var out [][]int
	a := make([]int, n)
	for i := range a {
		a[i] = i
	}
	var rec func(k int)
	rec = func(k int) {
		if k == n {
			out = append(out, append([]int(nil), a...))
			return
		}
		for i := k; i < n; i++ {
			a[k], a[i] = a[i], a[k]
			rec(k + 1)
			a[k], a[i] = a[i], a[k]
		}
	}
	rec(0)
	return out
}

func c18Run(r *vkit.Run) {
	if !vsched.SeamAvailable() {
		r.HarnessError("C18 must be built with the runtime map-order seam")
	}
	idx := 0
	emit := func(in c18Input) {
		idx++
		if !r.Mine(idx) || r.Stop() {
			return
		}
		c18Scenario1(r, in)
	}
	joint := 1
	if r.Thorough() {
		joint = 2
	}
	for _, sc := range c18Scenarios {
		if sc.n <= 3 {
			if (r.Thorough() && !sc.light) || sc.name == "log-3" || sc.name == "binop-2" || sc.name == "colliding-labels-2" {
				emit(c18Input{Scenario: sc.name, Mode: "threads"})
			} else {
				emit(c18Input{Scenario: sc.name, Mode: "bound-threads", Bound: 2})
			}
			if sc.light {
				emit(c18Input{Scenario: sc.name, Mode: "joint", Bound: 1})
			} else {
				emit(c18Input{Scenario: sc.name, Mode: "joint", Bound: joint})
			}
		}
		for _, p := range c18Perms(sc.n) {
			emit(c18Input{Scenario: sc.name, Mode: "perm", Perm: p})
		}
	}
	r.Note("bounds", fmt.Sprintf("%d scenarios (log query, count_over_time, sum by, binary operation, colliding sanitised Docker labels, 12-label containers, 5 containers); per scenario: every thread interleaving with default map orders (quick: for 3 scenarios, preemption bound 2 for the others), every execution whose preemptions + map-order deviations total <= %d, and every completion order of the opens (N! permutations, N<=5); compared: canonical Eval result and rendered bytes (colour off, distinct timestamps)", len(c18Scenarios), joint))
}

func c18Replay(r *vkit.Run, v vkit.Violation) *vkit.Violation {
	var in c18Input
	if err := vkit.DecodeInput(v, &in); err != nil {
		r.HarnessError("bad input: %v", err)
	}
	return vkit.ReplayOne(r, func() {
		maps := in.Mode == "joint"
		ref := c18Exec(vsched.NewCtx(nil), in, maps)
		c := vsched.NewCtx(v.Choices)
		obs := c18Exec(c, in, maps)
		if c.Diverged != "" {
			r.HarnessError("replay divergence: %s", c.Diverged)
		}
		if obs.Err != ref.Err || obs.Result != ref.Result || obs.Rendered != ref.Rendered || obs.Deadlock != "" || len(obs.Panics) > 0 {
			r.Fail("C18", in, v.Choices, obs, ref, "outcome differs from the default execution", "")
		}
	})
}

// c18RaceRun is the separate free-running pass (built with -race, no scheduler, no runtime seam): a
// sampling pass whose only role is to let the race detector see unsynchronised accesses that the
// cooperative scheduler's hand-offs would hide.
func c18RaceRun(r *vkit.Run) {
	iters := 200
	if r.Thorough() {
		iters = 2000
	}
	for _, sc := range c18Scenarios {
		for it := 0; it < iters; it++ {
			ctrs := c18Containers(sc)
			if it%5 == 4 {
				// one open fails while the others succeed (error paths run concurrently with the successful opens)
				ctrs[it%len(ctrs)].OpenErr = fakedocker.ErrInjected
			}
			fake := fakedocker.New(ctrs)
			fake.HonourWindow = sc.created != nil
			k := it
			ctx, cancel := context.WithCancel(context.Background())
			var yields atomic.Int64
			fake.Yield = func(string) {
				// every seventh iteration the caller gives up while the opens are in flight (after the n-th call
				// boundary): whatever still runs then must not touch what the caller already cleans up
				if k%7 == 3 && yields.Add(1) == int64(1+k%5) {
					cancel()
				}
				for y := 0; y < k%4; y++ {
					runtime.Gosched()
				}
			}
			q, _ := dockerlog.NewQuerier(fake)
			eng := logqlengine.NewEngine(q, logqlengine.Options{TracerProvider: noop.NewTracerProvider()})
			_, _ = eng.Eval(ctx, sc.query, sc.params)
			cancel()
			r.Eval()
		}
		r.State(sc.name)
		r.NonTrivial()
	}
	r.Step(1)
	r.Sample(map[string]any{"race_pass_iterations_per_scenario": iters, "scenarios": len(c18Scenarios)})
}
