//go:build verif

package main

import (
	"bytes"
	"context"
	"fmt"
	"math"
	"strconv"
	"strings"
	"time"

	"github.com/docker/cli/cli/command"
	"github.com/docker/cli/cli/streams"
	"github.com/docker/docker/client"
	"github.com/spf13/cobra"

	"github.com/tdakkota/docker-logql/internal/lokiapi"
	"github.com/tdakkota/docker-logql/internal/zzverif/fakedocker"
	"github.com/tdakkota/docker-logql/internal/zzverif/vkit"
)

// c16Input: the four flags (nil = absent) and the clock.
type c16Input struct {
	Now   int64   `json:"now_ns"`
	Start *string `json:"start"`
	End   *string `json:"end"`
	Since *string `json:"since"`
	Step  *string `json:"step"`
	// Expectation, derived by the generator from the instants it spelled (never by parsing).
	WantStartNS *int64 `json:"want_start_ns,omitempty"` // nil = derived from defaults
	WantEndNS   *int64 `json:"want_end_ns,omitempty"`
	SinceNS     int64  `json:"since_ns,omitempty"`     // meaning of Since when present and well-formed
	WantStepNS  *int64 `json:"want_step_ns,omitempty"` // meaning of an explicit, well-formed step
	Malformed   string `json:"malformed,omitempty"`    // "start", "end", "since", "step": that flag must be rejected
	// Exact: the spellings used carry nanoseconds (unix nanoseconds, RFC 3339 with nine fraction digits): the instants
	// are compared to the nanosecond.
	Exact bool `json:"exact,omitempty"`
}

type c16Obs struct {
	StartNS  int64  `json:"start_ns"`
	EndNS    int64  `json:"end_ns"`
	StepNS   int64  `json:"step_ns"`
	FlagErr  string `json:"flag_err,omitempty"`
	RangeErr string `json:"range_err,omitempty"`
	StepErr  string `json:"step_err,omitempty"`
	Panic    string `json:"panic,omitempty"`
}

func c16Exec(in c16Input) (o c16Obs) {
	defer func() {
		if p := recover(); p != nil {
			o.Panic = fmt.Sprint(p)
		}
	}()
	// The values travel the way the command line delivers them: through the flag set of the real command
	// (pflag parsing, APIFlag.Set), then into parseTimeRange / parseStep as RunE passes them.
	cmd := queryCmd(nil)
	fs := cmd.Flags()
	var args []string
	for _, f := range []struct {
		name string
		v    *string
	}{{"start", in.Start}, {"end", in.End}, {"since", in.Since}, {"step", in.Step}} {
		if f.v != nil {
			args = append(args, "--"+f.name+"="+*f.v)
		}
	}
	if err := fs.Parse(args); err != nil {
		o.FlagErr = err.Error()
		return o
	}
	sp := *fs.Lookup("start").Value.(*APIFlag[*lokiapi.OptLokiTime, lokiapi.LokiTime]).Val
	ep := *fs.Lookup("end").Value.(*APIFlag[*lokiapi.OptLokiTime, lokiapi.LokiTime]).Val
	si := *fs.Lookup("since").Value.(*APIFlag[*lokiapi.OptPrometheusDuration, lokiapi.PrometheusDuration]).Val
	st := *fs.Lookup("step").Value.(*APIFlag[*lokiapi.OptPrometheusDuration, lokiapi.PrometheusDuration]).Val
	start, end, err := parseTimeRange(time.Unix(0, in.Now), sp, ep, si)
	if err != nil {
		o.RangeErr = err.Error()
		return o
	}
	o.StartNS, o.EndNS = start.UnixNano(), end.UnixNano()
	step, err := parseStep(st, start, end)
	if err != nil {
		o.StepErr = err.Error()
		return o
	}
	o.StepNS = int64(step)
	return o
}

const c16ms = int64(time.Millisecond)

func c16Check(r *vkit.Run, in c16Input) {
	r.Begin("C16", in)
	obs := c16Exec(in)
	r.Eval()
	r.Step(4)
	if in.Start == nil || in.End == nil {
		// distinct resolutions reached through defaults
		r.State(fmt.Sprintf("%d/%d/%d/%v/%v", obs.StartNS-in.Now, obs.EndNS-in.Now, obs.StepNS, obs.RangeErr != "", obs.StepErr != ""))
	}
	fail := func(why, finding string) {
		r.Fail("C16", in, nil, obs, nil, why, finding)
	}
	if obs.Panic != "" {
		fail("panic: "+obs.Panic, "")
		return
	}
	if obs.FlagErr != "" {
		if in.Malformed == "" {
			fail("well-formed flags rejected by the flag set: "+obs.FlagErr, "")
		}
		return
	}
	switch in.Malformed {
	case "start", "end", "since":
		if obs.RangeErr == "" {
			fail("malformed --"+in.Malformed+" was accepted instead of rejected", "")
		}
		return
	}
	if obs.RangeErr != "" {
		fail("well-formed flags rejected: "+obs.RangeErr, "")
		return
	}
	// reference resolution
	since := int64(6 * time.Hour)
	if in.Since != nil {
		since = in.SinceNS
	}
	wantEnd := in.Now
	if in.WantEndNS != nil {
		wantEnd = *in.WantEndNS
	}
	wantStart := min(wantEnd, in.Now) - since
	if in.WantStartNS != nil {
		wantStart = *in.WantStartNS
	}
	// instants are compared at millisecond resolution (the fractional-seconds spelling carries no more)
	if in.Exact && (obs.EndNS != wantEnd || obs.StartNS != wantStart) {
		fail(fmt.Sprintf("range resolves to [%d, %d] ns, the spellings denote [%d, %d] ns exactly", obs.StartNS, obs.EndNS, wantStart, wantEnd), "")
		return
	}
	if obs.EndNS/c16ms != wantEnd/c16ms {
		fail(fmt.Sprintf("end resolves to %d ns, expected %d ns", obs.EndNS, wantEnd), "")
		return
	}
	if obs.StartNS/c16ms != wantStart/c16ms {
		fail(fmt.Sprintf("start resolves to %d ns, expected %d ns", obs.StartNS, wantStart), "")
		return
	}
	if in.Malformed == "step" {
		if obs.StepErr == "" {
			finding := ""
			if obs.StepNS <= 0 {
				finding = "C16-nonpositive-step-accepted"
			}
			fail(fmt.Sprintf("--step %q must be rejected (malformed or not strictly positive), got step %d ns", *in.Step, obs.StepNS), finding)
		}
		return
	}
	if obs.StepErr != "" {
		fail("well-formed --step rejected: "+obs.StepErr, "")
		return
	}
	if in.Step != nil {
		if obs.StepNS != *in.WantStepNS {
			fail(fmt.Sprintf("--step %q resolves to %d ns, expected %d ns", *in.Step, obs.StepNS, *in.WantStepNS), "")
		}
		return
	}
	// default step = max(1s, floor((end-start)/250) seconds), on the resolved range
	span := float64(obs.EndNS-obs.StartNS) / 1e9
	want := int64(math.Max(math.Floor(span/250), 1)) * int64(time.Second)
	if obs.StepNS != want {
		fail(fmt.Sprintf("default step %d ns for a range of %.3fs, expected %d ns", obs.StepNS, span, want), "")
	}
}

func sp(s string) *string { return &s }
func ip(v int64) *int64   { return &v }

// c16Spellings spells the instant ns (a whole number of milliseconds) in every supported notation.
func c16Spellings(ns int64) []string {
	s, frac := ns/1e9, ns%1e9
	out := []string{
		strconv.FormatInt(ns, 10),           // unix nanoseconds
		fmt.Sprintf("%d.%03d", s, frac/1e6), // fractional seconds
		time.Unix(0, ns).UTC().Format(time.RFC3339Nano),
		time.Unix(0, ns).In(time.FixedZone("", -7*3600-1800)).Format(time.RFC3339Nano),
	}
	if frac == 0 {
		out = append(out, strconv.FormatInt(s, 10)) // unix seconds
	}
	// fractional seconds written with fewer or more digits than three: .5 is half a second, .50 and .500000 too
	if frac != 0 {
		digits := fmt.Sprintf("%03d", frac/1e6)
		if t := strings.TrimRight(digits, "0"); t != digits {
			out = append(out, fmt.Sprintf("%d.%s", s, t))
		}
		out = append(out, fmt.Sprintf("%d.%s000", s, digits))
	} else {
		out = append(out, fmt.Sprintf("%d.0", s))
	}
	return out
}

func c16Run(r *vkit.Run) {
	idx := 0
	one := func(in c16Input, nontrivial bool) {
		idx++
		if !r.Mine(idx) || r.Stop() {
			return
		}
		c16Check(r, in)
		if nontrivial {
			r.NonTrivial()
		}
		if r.WantSample() && in.Start != nil && in.End != nil && in.Step != nil {
			r.Sample(in)
		}
	}
	y2001 := time.Date(2001, 1, 1, 0, 0, 0, 0, time.UTC).Unix()
	y2200 := time.Date(2200, 1, 1, 0, 0, 0, 0, time.UTC).Unix()
	now := time.Date(2024, 5, 6, 7, 8, 9, 0, time.UTC).UnixNano()
	// (1) every spelling of every instant on the grid, as --start and as --end
	stride := int64(86400*3 + 3607)
	if r.Thorough() {
		stride = 21601
	}
	var secs []int64
	for s := y2001; s <= y2200; s += stride {
		secs = append(secs, s)
	}
	for _, c := range []int64{999999999, 1000000000, 9999999999 - 2, y2001, y2200, 2147483647, 4294967295} {
		for d := int64(-3); d <= 3; d++ {
			if c+d >= y2001 && c+d <= y2200 {
				secs = append(secs, c+d)
			}
		}
	}
	for _, s := range secs {
		ns := s * 1e9
		for _, text := range c16Spellings(ns) {
			one(c16Input{Now: now, Start: sp(text), WantStartNS: ip(ns)}, true)
			one(c16Input{Now: now, End: sp(text), WantEndNS: ip(ns)}, true)
		}
	}
	r.GlobalState("grid")
	// all 1000 millisecond fractions of three base seconds
	for _, s := range []int64{999999999, 1700000000, 7000000001} {
		for ms := int64(0); ms < 1000; ms++ {
			ns := s*1e9 + ms*1e6
			for _, text := range c16Spellings(ns) {
				one(c16Input{Now: now, Start: sp(text), End: sp(strconv.FormatInt(s+10, 10)), WantStartNS: ip(ns), WantEndNS: ip((s + 10) * 1e9)}, true)
			}
		}
	}
	// instants off the millisecond grid, in the spellings that carry nanoseconds: the same instant, to the nanosecond
	for _, s := range []int64{999999999, 1700000000, 7000000001} {
		for _, sub := range []int64{1, 999, 500000, 999999, 1000001, 123456789, 999499999, 999500000, 999999999} {
			ns := s*1e9 + sub
			endNS := (s+10)*1e9 + sub
			for _, text := range []string{strconv.FormatInt(ns, 10), time.Unix(0, ns).UTC().Format(time.RFC3339Nano), time.Unix(0, ns).In(time.FixedZone("", 5*3600+1800)).Format(time.RFC3339Nano)} {
				one(c16Input{Now: now, Start: sp(text), End: sp(strconv.FormatInt(endNS, 10)), WantStartNS: ip(ns), WantEndNS: ip(endNS), Exact: true}, true)
				one(c16Input{Now: now, Start: sp(strconv.FormatInt(s-10, 10)), End: sp(text), WantStartNS: ip((s - 10) * 1e9), WantEndNS: ip(ns), Exact: true}, true)
			}
		}
	}
	r.GlobalState("milliseconds")
	// (2) all 16 present/absent combinations x now before/between/after x since values x step values
	type dur struct {
		text string
		ns   int64
	}
	sinces := []dur{{"0s", 0}, {"0", 0}, {"0h0m0s", 0}, {"5m", int64(5 * time.Minute)}, {"1h", int64(time.Hour)}, {"1d", int64(24 * time.Hour)}, {"1h30m", int64(90 * time.Minute)}, {"2w", int64(14 * 24 * time.Hour)}}
	steps := []dur{{"5", int64(5 * time.Second)}, {"0.5", int64(500 * time.Millisecond)}, {"90", int64(90 * time.Second)}, {"5m", int64(5 * time.Minute)}, {"1h30m", int64(90 * time.Minute)}, {"1d", int64(24 * time.Hour)}, {"15s", int64(15 * time.Second)}, {"250ms", int64(250 * time.Millisecond)}}
	t0 := int64(1700000000) * 1e9
	spans := []int64{0, 1, 249, 250, 251, 499, 500, 999, 21600, 86400, 604800, 2500000}
	for _, span := range spans {
		t1 := t0 + span*1e9
		for _, nowv := range []int64{t0 - 3600*1e9, t0 + span*1e9/2, t1 + 3600*1e9, t1} {
			for mask := 0; mask < 16; mask++ {
				for _, si := range sinces {
					for _, st := range steps {
						in := c16Input{Now: nowv}
						if mask&1 != 0 {
							in.Start, in.WantStartNS = sp(strconv.FormatInt(t0/1e9, 10)), ip(t0)
						}
						if mask&2 != 0 {
							in.End, in.WantEndNS = sp(time.Unix(0, t1).UTC().Format(time.RFC3339Nano)), ip(t1)
						}
						if mask&4 != 0 {
							in.Since, in.SinceNS = sp(si.text), si.ns
						}
						if mask&8 != 0 {
							in.Step, in.WantStepNS = sp(st.text), ip(st.ns)
						}
						one(in, mask != 0)
						if mask&4 == 0 && mask&8 == 0 {
							break
						}
					}
					if mask&4 == 0 {
						break
					}
				}
			}
		}
	}
	// the default step is computed from the instants as given, fractions included (499.2 s is below the 500 s boundary)
	for _, base := range []int64{1700000000, 1700000250} {
		for _, spanMS := range []int64{499200, 500000, 499999, 500001, 250000, 249900, 749100, 750000} {
			for _, off := range []int64{0, 900, 100} {
				s0, e0 := base*1e9+off*1e6, base*1e9+off*1e6+spanMS*1e6
				for _, st := range c16Spellings(s0)[:2] {
					for _, en := range c16Spellings(e0)[:2] {
						one(c16Input{Now: e0 + 3600*1e9, Start: sp(st), End: sp(en), WantStartNS: ip(s0), WantEndNS: ip(e0)}, true)
					}
				}
			}
		}
	}
	r.GlobalState("flag-combinations")
	// reversed range (end before start): default step must still be 1s
	one(c16Input{Now: now, Start: sp("1700000500"), End: sp("1700000000"), WantStartNS: ip(1700000500 * 1e9), WantEndNS: ip(1700000000 * 1e9)}, true)
	// (3) malformed spellings, in every flag
	for _, bad := range []string{"abc", "5x", " 5", "1e", "--", "12:00", "2024-01-01", "2024-01-01T00:00:00", "1700000000s", "17e", "0x10"} {
		one(c16Input{Now: now, Start: sp(bad), Malformed: "start"}, true)
		one(c16Input{Now: now, End: sp(bad), Malformed: "end"}, true)
	}
	for _, bad := range []string{"", "abc", "5x", " 5", "1e", "--", "5 m", "m5", "1h1d"} {
		one(c16Input{Now: now, Since: sp(bad), Malformed: "since"}, true)
		one(c16Input{Now: now, Step: sp(bad), Malformed: "step"}, true)
	}
	// (3b) a malformed flag is rejected whichever other flags are present
	for _, bad := range []string{"abc", "5x", "1h30", "-1h", "6 h"} {
		for mask := 0; mask < 8; mask++ {
			mk := func(which string) c16Input {
				in := c16Input{Now: now, Malformed: which}
				if mask&1 != 0 && which != "start" {
					in.Start, in.WantStartNS = sp("1700000000"), ip(1700000000*1e9)
				}
				if mask&2 != 0 && which != "end" {
					in.End, in.WantEndNS = sp("1700003600"), ip(1700003600*1e9)
				}
				if mask&4 != 0 && which != "since" {
					in.Since, in.SinceNS = sp("1h"), int64(time.Hour)
				}
				if mask&4 != 0 && which == "since" {
					in.Step, in.WantStepNS = sp("15s"), ip(int64(15*time.Second))
				}
				return in
			}
			a := mk("since")
			a.Since = sp(bad)
			one(a, true)
			b := mk("start")
			b.Start = sp(bad)
			one(b, true)
			c := mk("end")
			c.End = sp(bad)
			one(c, true)
			d := mk("step")
			d.Step = sp(bad)
			if mask&4 != 0 {
				d.Since, d.SinceNS = sp("1h"), int64(time.Hour)
			}
			one(d, true)
		}
	}
	// (4) an explicit step is strictly positive
	for _, bad := range []string{"0", "-5", "-0.5", "NaN", "Inf", "-Inf", "0s", "0m", "0.0", "-0"} {
		one(c16Input{Now: now, Step: sp(bad), Malformed: "step"}, true)
		one(c16Input{Now: now, Start: sp("1700000000"), End: sp("1700003600"), WantStartNS: ip(1700000000 * 1e9), WantEndNS: ip(1700003600 * 1e9), Step: sp(bad), Malformed: "step"}, true)
	}
	r.GlobalState("malformed")
	c16E2ERun(r, func(fn func(), nontrivial bool) {
		idx++
		if !r.Mine(idx) || r.Stop() {
			return
		}
		fn()
		if nontrivial {
			r.NonTrivial()
		}
	})
	r.Note("bounds", fmt.Sprintf("instants: every %d s between 2001 and 2200 plus +-3 s around digit-length and 32-bit boundaries, in 5 spellings, as --start and as --end; all 1000 ms fractions of 3 base seconds in 4 spellings; 12 spans x 4 clocks x 16 flag subsets x 8 since (incl. zero) x 8 step spellings; 11+9 malformed spellings per flag; 10 non-positive steps; every value travels through the command's own flag set (pflag parsing, APIFlag.Set); end to end (argv -> request sent to the fake daemon and printed records): 2 starts x 4 spans (incl. start = end) x all spelling pairs x 2 argv forms, and --end with --since; every end-to-end command line both at queryCmd and through rootCmd of main.go under a top-level command carrying the CLI's streams", stride))
}

// ---- end to end: the command itself, from argv to the request sent to the daemon ----

// c16CLI is a command.Cli whose only usable method is Client.
type c16CLI struct {
	command.Cli
	c   client.APIClient
	out *streams.Out
}

func (c c16CLI) Out() *streams.Out { return c.out }

func (c c16CLI) Client() client.APIClient { return c.c }

type c16E2EInput struct {
	Args      []string `json:"args"`
	StartSec  int64    `json:"start_s"`
	EndSec    int64    `json:"end_s"`
	WantLines []string `json:"want_lines"`
	// Metric: the query is count_over_time({container="n0"}[1m]) instead: the command evaluates it (and then refuses to
	// render a matrix); the daemon must have been asked for [start - 1m, end]
	Metric bool `json:"metric,omitempty"`
	// Plugin: the command is reached the way the plugin host reaches it (top-level command carrying the CLI's streams,
	// rootCmd of main.go below it, "query" below that) instead of queryCmd alone
	Plugin bool `json:"plugin,omitempty"`
}

type c16E2EObs struct {
	Err   string   `json:"err,omitempty"`
	Since string   `json:"since"`
	Until string   `json:"until"`
	Lines []string `json:"lines"`
	Panic string   `json:"panic,omitempty"`
}

// c16E2ERecords: three records inside the window (not on its edges). The fake daemon does not filter by
// since/until, and whether the engine drops records outside the window is no part of C16, so there are none.
func c16E2ERecords(startSec, endSec int64) (recs []fakedocker.Rec, inside []string) {
	if startSec == endSec { // the window is one instant
		return []fakedocker.Rec{{Stream: 1, TS: fakedocker.TS(startSec * 1e9), Msg: "m0"}}, []string{"m0"}
	}
	mid := startSec + (endSec-startSec)/2
	for i, ts := range []int64{startSec + 1, mid, endSec - 1} {
		msg := fmt.Sprintf("m%d", i)
		recs = append(recs, fakedocker.Rec{Stream: 1, TS: fakedocker.TS(ts * 1e9), Msg: msg})
		inside = append(inside, msg)
	}
	return recs, inside
}

func c16E2EExec(in c16E2EInput) (o c16E2EObs) {
	defer func() {
		if p := recover(); p != nil {
			o.Panic = fmt.Sprint(p)
		}
	}()
	recs, _ := c16E2ERecords(in.StartSec, in.EndSec)
	fake := fakedocker.New([]fakedocker.Container{{ID: "id0", Name: "/n0", Image: "img", State: "running", Log: fakedocker.Encode(recs)}})
	var out bytes.Buffer
	query := `{container="n0"}`
	if in.Metric {
		query = `count_over_time({container="n0"}[1m])`
	}
	args := append(append([]string{}, in.Args...), "--color=false", "--timestamp=false", "--container=false", query)
	var cmd *cobra.Command
	if in.Plugin {
		dcli := c16CLI{c: fake, out: streams.NewOut(&out)}
		cmd = &cobra.Command{Use: "docker [OPTIONS] logql [ARG...]", TraverseChildren: true}
		cmd.SetOut(dcli.Out())
		cmd.SetErr(&bytes.Buffer{})
		cmd.AddCommand(rootCmd(dcli))
		args = append([]string{"logql", "query"}, args...)
	} else {
		cmd = queryCmd(c16CLI{c: fake})
		cmd.SetOut(&out)
		cmd.SetErr(&bytes.Buffer{})
	}
	cmd.SilenceUsage, cmd.SilenceErrors = true, true
	cmd.SetArgs(args)
	if err := cmd.ExecuteContext(context.Background()); err != nil {
		o.Err = err.Error()
		if !in.Metric || !strings.Contains(o.Err, "unsupported result") {
			return o
		}
		o.Err = "" // evaluated, not rendered: the request to the daemon is what is looked at
	}
	if len(fake.Calls) > 0 {
		o.Since, o.Until = fake.Calls[0].Options.Since, fake.Calls[0].Options.Until
	}
	if t := strings.TrimSuffix(out.String(), "\n"); t != "" {
		o.Lines = strings.Split(t, "\n")
	}
	return o
}

func c16E2ECheck(r *vkit.Run, in c16E2EInput) {
	r.Begin("C16/e2e", in)
	obs := c16E2EExec(in)
	r.Eval()
	r.Step(1)
	fail := func(why string) { r.Fail("C16/e2e", in, nil, obs, in.WantLines, why, "") }
	switch {
	case obs.Panic != "":
		fail("panic: " + obs.Panic)
	case obs.Err != "":
		fail("the command rejects well-formed flags: " + obs.Err)
	case in.Metric:
		if obs.Since != strconv.FormatInt(in.StartSec-60, 10) || obs.Until != strconv.FormatInt(in.EndSec, 10) {
			fail(fmt.Sprintf("the daemon is asked for since=%q until=%q, the flags and the 1m range denote [%d, %d]", obs.Since, obs.Until, in.StartSec-60, in.EndSec))
		}
	case obs.Since != strconv.FormatInt(in.StartSec, 10) || obs.Until != strconv.FormatInt(in.EndSec, 10):
		fail(fmt.Sprintf("the daemon is asked for since=%q until=%q, the flags denote [%d, %d]", obs.Since, obs.Until, in.StartSec, in.EndSec))
	case strings.Join(obs.Lines, "|") != strings.Join(in.WantLines, "|"):
		fail("the command prints other records than those inside the window the flags denote")
	}
}

func c16E2ERun(r *vkit.Run, one func(fn func(), nontrivial bool)) {
	// every command line is run twice: queryCmd alone, and through the plugin's root command
	both := func(in c16E2EInput) {
		one(func() { c16E2ECheck(r, in) }, true)
		in.Plugin = true
		one(func() { c16E2ECheck(r, in) }, true)
	}
	// explicit --start and --end in every spelling pair; --end with --since; all in the past, so the
	// wall clock (which RunE reads itself) has no influence on the expected window
	for _, startSec := range []int64{999999990, 1700000000} {
		for _, span := range []int64{0, 10, 3600, 90000} {
			endSec := startSec + span
			_, inside := c16E2ERecords(startSec, endSec)
			for _, st := range c16Spellings(startSec * 1e9) {
				for _, en := range c16Spellings(endSec * 1e9) {
					for _, form := range []string{"=", " "} {
						args := []string{"--start=" + st, "--end=" + en}
						if form == " " {
							args = []string{"--end", en, "--start", st}
						}
						in := c16E2EInput{Args: args, StartSec: startSec, EndSec: endSec, WantLines: inside}
						both(in)
					}
				}
			}
			for _, en := range c16Spellings(endSec * 1e9) {
				for _, si := range []string{fmt.Sprintf("%ds", span), fmt.Sprintf("%dms", span*1000)} {
					in := c16E2EInput{Args: []string{"--since=" + si, "--end=" + en, "--step=15s"}, StartSec: startSec, EndSec: endSec, WantLines: inside}
					both(in)
				}
			}
		}
	}
	// explicit steps far smaller than the range (a log query does not step at all), and a metric query whose start and
	// end are no multiples of its step
	for _, span := range []int64{3600, 90000, 864000} {
		startSec := int64(1700000010)
		endSec := startSec + span
		_, inside := c16E2ERecords(startSec, endSec)
		for _, step := range []string{"1", "1s", "500ms", "0.25", "7", "1m", "13m"} {
			args := []string{"--start=" + strconv.FormatInt(startSec, 10), "--end=" + strconv.FormatInt(endSec, 10), "--step=" + step}
			in := c16E2EInput{Args: args, StartSec: startSec, EndSec: endSec, WantLines: inside}
			both(in)
			if span == 3600 && step != "1" && step != "1s" && step != "500ms" && step != "0.25" {
				inm := c16E2EInput{Args: args, StartSec: startSec, EndSec: endSec, Metric: true}
				both(inm)
			}
		}
	}
	// fractional instants: the daemon is asked for the whole second the instant lies in (never a later one)
	for _, frac := range []int64{500, 900, 999} {
		startSec, endSec := int64(1700000000), int64(1700000600)
		_, inside := c16E2ERecords(startSec+2, endSec)
		for _, st := range c16Spellings(startSec*1e9 + frac*1e6) {
			for _, en := range c16Spellings(endSec*1e9 + frac*1e6) {
				in := c16E2EInput{Args: []string{"--start=" + st, "--end=" + en}, StartSec: startSec, EndSec: endSec, WantLines: inside}
				both(in)
			}
		}
	}
	// an explicit --end in the future is honoured as it is; --start together with --since is accepted (--start wins)
	future := time.Date(2200, 1, 1, 0, 0, 0, 0, time.UTC).Unix()
	for _, startSec := range []int64{1700000000} {
		_, inside := c16E2ERecords(startSec, future)
		for _, en := range c16Spellings(future * 1e9) {
			in := c16E2EInput{Args: []string{"--start=" + strconv.FormatInt(startSec, 10), "--end=" + en}, StartSec: startSec, EndSec: future, WantLines: inside}
			both(in)
		}
		_, inside2 := c16E2ERecords(startSec, startSec+3600)
		for _, args := range [][]string{
			{"--start=" + strconv.FormatInt(startSec, 10), "--since=5m", "--end=" + strconv.FormatInt(startSec+3600, 10)},
			{"--since", "2h", "--end", strconv.FormatInt(startSec+3600, 10), "--start", strconv.FormatInt(startSec, 10), "--step", "30"},
		} {
			in := c16E2EInput{Args: args, StartSec: startSec, EndSec: startSec + 3600, WantLines: inside2}
			both(in)
		}
	}
	r.GlobalState("end-to-end")
}

func c16Replay(r *vkit.Run, v vkit.Violation) *vkit.Violation {
	if v.Check == "C16/e2e" {
		var in c16E2EInput
		if err := vkit.DecodeInput(v, &in); err != nil {
			r.HarnessError("bad input: %v", err)
		}
		return vkit.ReplayOne(r, func() { c16E2ECheck(r, in) })
	}
	var in c16Input
	if err := vkit.DecodeInput(v, &in); err != nil {
		r.HarnessError("bad input: %v", err)
	}
	return vkit.ReplayOne(r, func() { c16Check(r, in) })
}
