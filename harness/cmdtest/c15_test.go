//go:build verif

package main

import (
	"bytes"
	"context"
	"encoding/base64"
	"encoding/json"
	"fmt"
	"io"
	"regexp"
	"sort"
	"strings"
	"time"
	"unicode/utf8"

	"github.com/docker/cli/cli/streams"
	"github.com/spf13/cobra"

	"github.com/tdakkota/docker-logql/internal/lokiapi"
	"github.com/tdakkota/docker-logql/internal/zzverif/fakedocker"
	"github.com/tdakkota/docker-logql/internal/zzverif/vkit"
)

type c15Entry struct {
	TS  int64  `json:"ts"`
	Msg string `json:"msg"`
}

// Messages are arbitrary bytes; JSON strings are not. A message that is not valid UTF-8 is recorded in base64
// so that a replay file carries exactly the bytes that were rendered.
func (e c15Entry) MarshalJSON() ([]byte, error) {
	if utf8.ValidString(e.Msg) {
		return json.Marshal(struct {
			TS  int64  `json:"ts"`
			Msg string `json:"msg"`
		}{e.TS, e.Msg})
	}
	return json.Marshal(struct {
		TS  int64  `json:"ts"`
		B64 string `json:"msg_base64"`
	}{e.TS, base64.StdEncoding.EncodeToString([]byte(e.Msg))})
}

func (e *c15Entry) UnmarshalJSON(data []byte) error {
	var raw struct {
		TS  int64   `json:"ts"`
		Msg string  `json:"msg"`
		B64 *string `json:"msg_base64"`
	}
	if err := json.Unmarshal(data, &raw); err != nil {
		return err
	}
	e.TS, e.Msg = raw.TS, raw.Msg
	if raw.B64 != nil {
		b, err := base64.StdEncoding.DecodeString(*raw.B64)
		if err != nil {
			return err
		}
		e.Msg = string(b)
	}
	return nil
}

type c15Stream struct {
	Container string     `json:"container"`
	NoLabel   bool       `json:"no_container_label,omitempty"`
	Extra     string     `json:"extra,omitempty"` // second label distinguishing two streams of one container
	Entries   []c15Entry `json:"entries"`
}

type c15Input struct {
	Streams   []c15Stream `json:"streams"`
	Timestamp bool        `json:"timestamp"`
	Container bool        `json:"container"`
	Color     bool        `json:"color"`
}

func c15Data(in c15Input) lokiapi.QueryResponseData {
	var streams lokiapi.Streams
	for _, s := range in.Streams {
		ls := lokiapi.LabelSet{}
		if !s.NoLabel {
			ls["container"] = s.Container
		}
		if s.Extra != "" {
			ls["extra"] = s.Extra
		}
		st := lokiapi.Stream{Stream: lokiapi.NewOptLabelSet(ls)}
		for _, e := range s.Entries {
			st.Values = append(st.Values, lokiapi.LogEntry{T: uint64(e.TS), V: e.Msg})
		}
		streams = append(streams, st)
	}
	var data lokiapi.QueryResponseData
	data.SetStreamsResult(lokiapi.StreamsResult{Result: streams})
	return data
}

type c15Obs struct {
	Out   string `json:"out"`
	Err   string `json:"err,omitempty"`
	Panic string `json:"panic,omitempty"`
}

func c15Exec(in c15Input) (o c15Obs) {
	var buf bytes.Buffer
	func() {
		defer func() {
			if p := recover(); p != nil {
				o.Panic = fmt.Sprint(p)
			}
		}()
		err := renderResult(&buf, renderOptions{timestamp: in.Timestamp, container: in.Container, color: in.Color}, c15Data(in))
		if err != nil {
			o.Err = err.Error()
		}
	}()
	o.Out = buf.String()
	return o
}

var c15Palette = regexp.MustCompile(`^\x1b\[(3[0-7]|9[0-7])(;1)?m`)

type c15Exp struct {
	name string
	ts   int64
	msg  string
}

// c15Match consumes out from position pos with the remaining expected entries of the current tie group
// (any order inside a group is acceptable), backtracking where one rendering is a prefix of another.
func c15Match(in c15Input, out string, pos int, groups [][]c15Exp, gi int, rest []c15Exp, colors map[string]string) bool {
	if len(rest) == 0 {
		if gi+1 >= len(groups) {
			return pos == len(out)
		}
		return c15Match(in, out, pos, groups, gi+1, groups[gi+1], colors)
	}
	tried := map[string]bool{}
	for i, e := range rest {
		k := e.name + "\x00" + e.msg
		if tried[k] {
			continue
		}
		tried[k] = true
		p := pos
		ok := true
		var setColor string
		if in.Container {
			if in.Color {
				m := c15Palette.FindString(out[p:])
				if m == "" {
					ok = false
				} else if c, seen := colors[e.name]; seen && c != m {
					ok = false
				} else {
					if !seen {
						setColor = m
					}
					p += len(m)
				}
			}
			if ok && strings.HasPrefix(out[p:], e.name) {
				p += len(e.name)
			} else {
				ok = false
			}
			if ok && in.Color {
				if strings.HasPrefix(out[p:], "\x1b[0m") {
					p += 4
				} else {
					ok = false
				}
			}
			if ok && strings.HasPrefix(out[p:], " ") {
				p++
			} else {
				ok = false
			}
		}
		if ok && in.Timestamp {
			ts := time.Unix(0, e.ts).Format(time.RFC3339Nano)
			if in.Color {
				ts = "\x1b[34m" + ts + "\x1b[0m"
			}
			if strings.HasPrefix(out[p:], ts+" ") {
				p += len(ts) + 1
			} else {
				ok = false
			}
		}
		if ok {
			msg := strings.TrimRight(e.msg, "\r\n") + "\n"
			if strings.HasPrefix(out[p:], msg) {
				p += len(msg)
			} else {
				ok = false
			}
		}
		if !ok {
			continue
		}
		if setColor != "" {
			colors[e.name] = setColor
		}
		next := append(append([]c15Exp(nil), rest[:i]...), rest[i+1:]...)
		if c15Match(in, out, p, groups, gi, next, colors) {
			return true
		}
		if setColor != "" {
			delete(colors, e.name)
		}
	}
	return false
}

func c15Check(r *vkit.Run, in c15Input) {
	r.Begin("C15", in)
	obs := c15Exec(in)
	r.Eval()
	c15Judge(r, "C15", in, in, obs)
}

// c15Judge compares one rendering with the layout of the statement; report is the input recorded on failure.
func c15Judge(r *vkit.Run, check string, in c15Input, report any, obs c15Obs) {
	var all []c15Exp
	distinct := map[string]bool{}
	for _, s := range in.Streams {
		name := s.Container
		if s.NoLabel {
			name = ""
		}
		for _, e := range s.Entries {
			all = append(all, c15Exp{name: name, ts: e.TS, msg: e.Msg})
			distinct[name] = true
		}
	}
	r.Step(len(all) + 1)
	sort.SliceStable(all, func(i, j int) bool { return all[i].ts < all[j].ts })
	var groups [][]c15Exp
	for i := 0; i < len(all); {
		j := i
		for j < len(all) && all[j].ts == all[i].ts {
			j++
		}
		groups = append(groups, all[i:j])
		i = j
	}
	fail := func(why, finding string) {
		r.Fail(check, report, nil, obs, map[string]any{"entries_in_time_order": len(all)}, why, finding)
	}
	switch {
	case obs.Panic != "":
		finding := ""
		if in.Color && len(distinct) >= 8 && strings.Contains(obs.Panic, "index out of range [8] with length 8") {
			finding = "C15-palette-index-panic"
		}
		fail("renderResult panicked: "+obs.Panic, finding)
		return
	case obs.Err != "":
		fail("renderResult failed: "+obs.Err, "")
		return
	}
	escInInput := false
	for _, e := range all {
		if strings.Contains(e.msg, "\x1b") || strings.Contains(e.name, "\x1b") {
			escInInput = true // messages are printed as they are; the layout match below decides
		}
	}
	if !in.Color && !escInInput && strings.Contains(obs.Out, "\x1b") {
		fail("colour is off but the output contains an escape sequence", "")
		return
	}
	if len(groups) == 0 {
		if obs.Out != "" {
			fail("no entries but output is not empty", "")
		}
		return
	}
	if !c15Match(in, obs.Out, 0, groups, 0, groups[0], map[string]string{}) {
		fail("output is not one line per entry in timestamp order with the documented layout (container, RFC3339Nano timestamp, message with trailing CR/LF trimmed) and a consistent palette colour per container", "")
	}
}

var c15Msgs = []string{"m", "", "m\n", "m\r\n", "a\nb", "\n", "\xff", "m\r", " m \n", "\tm\t", "m\n\n", "m\r\n\r\n", "m\n\r", "\r\r\n\n", "100%", "%d %s%", "%!x(MISSING)\n",
	// messages that carry escape sequences of their own (printed as they are, with or without colours)
	"\x1b[31mred", "\x1b[1mbold\x1b[0m", "pre\x1b[0m\n", "\x1b["}

func c15Run(r *vkit.Run) {
	idx := 0
	one := func(in c15Input, nontrivial bool) {
		idx++
		if !r.Mine(idx) || r.Stop() {
			return
		}
		c15Check(r, in)
		if nontrivial {
			r.NonTrivial()
		}
		if r.WantSample() && len(in.Streams) == 9 && in.Color {
			r.Sample(in)
		}
	}
	opts := func(f func(ts, ct, co bool)) {
		for k := 0; k < 8; k++ {
			f(k&1 != 0, k&2 != 0, k&4 != 0)
		}
	}
	base := int64(1700000000) * 1e9
	// (a) 0..20 containers (palette has 8 names), structured entry/timestamp/message patterns, every rotation of the stream order (up to 3).
	maxN := 20
	if r.Thorough() {
		maxN = 40
	}
	for n := 0; n <= maxN; n++ {
		for cntPat := 0; cntPat < 3; cntPat++ {
			for tsPat := 0; tsPat < 3; tsPat++ {
				for mo := 0; mo < len(c15Msgs); mo++ {
					var streams []c15Stream
					for i := 0; i < n; i++ {
						cnt := []int{1, 2, i % 3}[cntPat]
						s := c15Stream{Container: fmt.Sprintf("c%d", i)}
						for j := 0; j < cnt; j++ {
							var ts int64
							switch tsPat {
							case 0:
								ts = base + int64(j*n+i)*1000000007 // distinct, interleaved across containers
							case 1:
								ts = base // all equal
							case 2:
								ts = base + int64((n-i)*2+j) // later containers first
							}
							s.Entries = append(s.Entries, c15Entry{TS: ts, Msg: c15Msgs[(mo+i+j)%len(c15Msgs)]})
						}
						streams = append(streams, s)
					}
					rots := 1
					if n > 1 {
						rots = 3
					}
					for rot := 0; rot < rots; rot++ {
						k := 0
						if n > 0 {
							k = (rot * (n/3 + 1)) % n
						}
						rs := append(append([]c15Stream(nil), streams[k:]...), streams[:k]...)
						opts(func(ts, ct, co bool) {
							one(c15Input{Streams: rs, Timestamp: ts, Container: ct, Color: co}, n >= 2)
						})
					}
				}
			}
		}
		r.GlobalState(fmt.Sprintf("containers=%d", n))
	}
	// (b) exhaustive small results: <=2 streams, <=2 entries each over 2 timestamps x 8 messages; two streams may belong to one
	// container, a stream may lack the container label.
	var seqs [][]c15Entry
	seqs = append(seqs, nil)
	var es []c15Entry
	for _, ts := range []int64{base + 1, base + 2} {
		for _, m := range c15Msgs {
			es = append(es, c15Entry{TS: ts, Msg: m})
		}
	}
	for _, a := range es {
		seqs = append(seqs, []c15Entry{a})
	}
	for _, a := range es {
		for _, b := range es {
			seqs = append(seqs, []c15Entry{a, b})
		}
	}
	step := 5
	if r.Thorough() {
		step = 1
	}
	for ai, a := range seqs {
		for bi := ai % step; bi < len(seqs); bi += step {
			b := seqs[bi]
			for v := 0; v < 4; v++ {
				s2 := c15Stream{Container: "c1", Entries: b}
				switch v {
				case 3:
					s2 = c15Stream{Container: "100%s", Entries: b} // a container label is any string (label_format)
				case 1:
					s2 = c15Stream{Container: "c0", Extra: "x", Entries: b}
				case 2:
					s2 = c15Stream{NoLabel: true, Entries: b}
				}
				in := c15Input{Streams: []c15Stream{{Container: "c0", Entries: a}, s2}}
				k := (ai + bi + v) % 8
				in.Timestamp, in.Container, in.Color = k&1 != 0, k&2 != 0, k&4 != 0
				one(in, len(a)+len(b) >= 2)
				if r.Thorough() {
					in.Timestamp, in.Container, in.Color = !in.Timestamp, !in.Container, !in.Color
					one(in, len(a)+len(b) >= 2)
				}
			}
		}
	}
	// (c) every byte value inside and as a whole message ("any message bytes")
	for b := 0; b < 256; b++ {
		for _, m := range []string{string([]byte{byte(b)}), "a" + string([]byte{byte(b)}) + "z", string([]byte{byte(b), byte(b)}) + "\n"} {
			for k := 0; k < 8; k += 3 {
				one(c15Input{Streams: []c15Stream{{Container: "c0", Entries: []c15Entry{{TS: base, Msg: m}, {TS: base + 1, Msg: "n"}}}}, Timestamp: k&1 != 0, Container: k&2 != 0, Color: k&4 != 0}, true)
			}
		}
	}
	c15E2ERun(r, func(fn func()) {
		idx++
		if !r.Mine(idx) || r.Stop() {
			return
		}
		fn()
		r.NonTrivial()
	})
	r.Note("bounds", fmt.Sprintf("0..%d containers x 3 entry-count patterns x 3 timestamp patterns (distinct interleaved, all equal, reversed) x 21 message offsets x up to 3 stream rotations x 8 option combinations; plus all results of 2 streams x <=2 entries over 2 timestamps x 21 messages (1/%d lattice on the second stream) in 4 stream-identity variants; every byte value 0..255 alone, doubled and inside a message; end to end (argv -> fake daemon -> printed bytes): 1-3 containers x 4 timestamp patterns (one going back in time inside a container) x 11 message offsets (two of 16 KiB and more without a line break, one with escape sequences of its own) x 20 spellings of the --timestamp/-t, --container/-c, --color flags incl. their defaults, and four kinds of result without entries; about a third of these also through rootCmd of main.go under a top-level command that carries the CLI's stdout stream (the plugin host's wiring); --limit -1..10 over 9 entries of 3 containers in 2 spellings, and 0..5 under 5 filtering queries, both ways of reaching the command; 9 query texts with escaped quotes, runs of blanks, tabs, line breaks and comments; one container under 4 parser queries giving 12 streams; last bytes delivered together with io.EOF (whole, blocks of 7 and 64)", maxN, step))
}

// ---- end to end: the command itself, from argv over a fake daemon to the printed bytes ----

type c15E2EInput struct {
	Args []string `json:"args"`
	// Query (default `{}`); Empty: the query selects nothing (no container matches, every line is filtered out, or
	// there is no container at all): nothing is printed and the command succeeds.
	Query string `json:"query,omitempty"`
	Empty bool   `json:"empty,omitempty"`
	// what the argv means
	Timestamp bool `json:"timestamp"`
	Container bool `json:"container"`
	Color     bool `json:"color"`
	// per-container logs
	Logs []c15Stream `json:"logs"`
	// ReadChunk > 0: the daemon's answer arrives in blocks of that many bytes, a Read never crosses a block boundary
	// (what a buffered HTTP body does); 0: a Read returns whatever fits.
	ReadChunk int `json:"read_chunk,omitempty"`
	// Want, when set, is what the query selects out of Logs (the query text reaches the engine verbatim).
	Want []c15Stream `json:"want,omitempty"`
	// EOFWithData: the last Read of every stream returns its bytes together with io.EOF (io.Reader allows that).
	EOFWithData bool `json:"eof_with_data,omitempty"`
	// Limit: what the --limit flag among Args means (nil: no such flag). A positive limit keeps the first min(L, N)
	// entries in time order, any other value keeps all (C08's last sentence, here through the command's own wiring).
	Limit *int `json:"limit,omitempty"`
	// Plugin: the command is reached the way the plugin host reaches it (a top-level command whose output is the CLI's
	// stdout stream, not a terminal; below it rootCmd of main.go; below that "query"), instead of queryCmd alone.
	Plugin bool `json:"plugin,omitempty"`
	// Big > 0: instead of Logs, that many containers with 700 entries each (generated; output well beyond 64 KiB)
	Big int `json:"big,omitempty"`
}

// c15BigLogs: n containers x 700 entries with interleaved timestamps and messages of varying length.
func c15BigLogs(n int) []c15Stream {
	base := int64(1700000000) * 1e9
	var logs []c15Stream
	for i := 0; i < n; i++ {
		s := c15Stream{Container: fmt.Sprintf("c%d", i)}
		for j := 0; j < 700; j++ {
			s.Entries = append(s.Entries, c15Entry{TS: base + int64(j*n+i)*1000003, Msg: fmt.Sprintf("entry %04d of c%d %s", j, i, strings.Repeat("x", (j*7+i)%23))})
		}
		logs = append(logs, s)
	}
	return logs
}

func c15E2EExec(in c15E2EInput) (o c15Obs) {
	defer func() {
		if p := recover(); p != nil {
			o.Panic = fmt.Sprint(p)
		}
	}()
	if in.Big > 0 {
		in.Logs = c15BigLogs(in.Big)
	}
	var ctrs []fakedocker.Container
	for i, l := range in.Logs {
		var recs []fakedocker.Rec
		for _, e := range l.Entries {
			recs = append(recs, fakedocker.Rec{Stream: 1, TS: fakedocker.TS(e.TS), Msg: e.Msg})
		}
		ctrs = append(ctrs, fakedocker.Container{ID: fmt.Sprintf("id%d", i), Name: "/" + l.Container, Image: "img", State: "running", Log: fakedocker.Encode(recs)})
	}
	fake := fakedocker.New(ctrs)
	if in.EOFWithData {
		chunk := in.ReadChunk
		fake.Plan = func(c int, pos, max int) (int, error) {
			n := max
			if chunk > 0 && chunk-pos%chunk < n {
				n = chunk - pos%chunk
			}
			if pos+n == len(ctrs[c].Log) {
				return n, io.EOF
			}
			return n, nil
		}
	} else if in.ReadChunk > 0 {
		chunk := in.ReadChunk
		fake.Plan = func(_ int, pos, max int) (int, error) {
			n := chunk - pos%chunk
			if n > max {
				n = max
			}
			return n, nil
		}
	}
	var out bytes.Buffer
	query := in.Query
	if query == "" {
		query = `{}`
	}
	args := append(append([]string{"--start=1699999000", "--end=1700001000"}, in.Args...), query)
	var cmd *cobra.Command
	if in.Plugin {
		// what plugin.Run builds around rootCmd (cli-plugins/plugin.newPluginCommand): the streams of the CLI on a
		// top-level command, the plugin's root command below it
		dcli := c16CLI{c: fake, out: streams.NewOut(&out)}
		cmd = &cobra.Command{Use: "docker [OPTIONS] logql [ARG...]", TraverseChildren: true}
		cmd.SetOut(dcli.Out())
		cmd.SetErr(&bytes.Buffer{})
		cmd.AddCommand(rootCmd(dcli))
		args = append([]string{"logql", "query"}, args...)
	} else {
		cmd = queryCmd(c16CLI{c: fake})
		cmd.SetOut(&out)
		cmd.SetErr(&bytes.Buffer{})
	}
	cmd.SilenceUsage, cmd.SilenceErrors = true, true
	cmd.SetArgs(args)
	if err := cmd.ExecuteContext(context.Background()); err != nil {
		o.Err = err.Error()
	}
	o.Out = out.String()
	return o
}

// c15FirstN keeps the n earliest entries (timestamps are distinct where this is used).
func c15FirstN(logs []c15Stream, n int) []c15Stream {
	var all []int64
	for _, l := range logs {
		for _, e := range l.Entries {
			all = append(all, e.TS)
		}
	}
	if n >= len(all) {
		return logs
	}
	sort.Slice(all, func(i, j int) bool { return all[i] < all[j] })
	cut := all[n-1]
	var out []c15Stream
	for _, l := range logs {
		k := c15Stream{Container: l.Container}
		for _, e := range l.Entries {
			if e.TS <= cut {
				k.Entries = append(k.Entries, e)
			}
		}
		out = append(out, k)
	}
	return out
}

func c15E2ECheck(r *vkit.Run, in c15E2EInput) {
	r.Begin("C15/e2e", in)
	obs := c15E2EExec(in)
	r.Eval()
	logs := in.Logs
	if in.Big > 0 {
		logs = c15BigLogs(in.Big)
	}
	if in.Empty {
		logs = nil
	}
	if in.Want != nil {
		logs = in.Want
	}
	if in.Limit != nil && *in.Limit > 0 {
		logs = c15FirstN(logs, *in.Limit)
	}
	c15Judge(r, "C15/e2e", c15Input{Streams: logs, Timestamp: in.Timestamp, Container: in.Container, Color: in.Color}, in, obs)
}

func c15E2ERun(r *vkit.Run, one func(fn func())) {
	base := int64(1700000000) * 1e9
	msgs := []string{"m", "m\n", "m\r\n", "", "a\nb", " m ", "\xffm\xfe", "100%\n\n",
		// messages as long as the daemon's own line buffer and longer, without a line break at the end
		strings.Repeat("L", 16384), strings.Repeat("M", 20000) + " end",
		// a message that carries terminal escape sequences of its own
		"\x1b[31mred\x1b[0m \x1b[2Kx"}
	type flagForm struct {
		args       []string
		ts, ct, co bool
	}
	var forms []flagForm
	b := func(v bool) string { return fmt.Sprint(v) }
	for k := 0; k < 8; k++ {
		ts, ct, co := k&1 != 0, k&2 != 0, k&4 != 0
		forms = append(forms,
			flagForm{[]string{"--timestamp=" + b(ts), "--container=" + b(ct), "--color=" + b(co)}, ts, ct, co},
			flagForm{[]string{"--color=" + b(co), "-c=" + b(ct), "-t=" + b(ts)}, ts, ct, co})
	}
	// defaults: timestamps and container names are shown
	forms = append(forms, flagForm{[]string{"--color=false"}, true, true, false}, flagForm{[]string{"--color=true", "-t=false"}, false, true, true},
		flagForm{[]string{"--color=false", "-c=false"}, true, false, false}, flagForm{[]string{"--color=false", "-t", "-c"}, true, true, false})
	for n := 1; n <= 3; n++ {
		for tsPat := 0; tsPat < 4; tsPat++ {
			for mo := range msgs {
				var logs []c15Stream
				for i := 0; i < n; i++ {
					s := c15Stream{Container: fmt.Sprintf("c%d", i)}
					for j := 0; j < 2; j++ {
						var ts int64
						switch tsPat {
						case 0:
							ts = base + int64(j*n+i)*1000000007
						case 1:
							ts = base + int64(j) // ties across containers
						case 2:
							ts = base + int64((n-i)*4+j)
						case 3: // a container whose own log goes back in time
							ts = base + int64(i*4+(1-j))*1000
						}
						s.Entries = append(s.Entries, c15Entry{TS: ts, Msg: msgs[(mo+i+j)%len(msgs)]})
					}
					logs = append(logs, s)
				}
				if n == 3 && mo%2 == 1 {
					logs[1].Entries = nil // a container that logged nothing
				}
				for fi, f := range forms {
					in := c15E2EInput{Args: f.args, Timestamp: f.ts, Container: f.ct, Color: f.co, Logs: logs}
					one(func() { c15E2ECheck(r, in) })
					// the same reached through the plugin's root command, the way the plugin host runs it
					if fi%3 == mo%3 {
						inp := in
						inp.Plugin = true
						one(func() { c15E2ECheck(r, inp) })
					}
					// the same over a transport that hands the answer out in blocks (a frame header is cut at every offset
					// sooner or later: block sizes 1, 3 and 13 against frames of 40-odd bytes)
					if fi%4 == mo%4 {
						for _, chunk := range []int{1, 3, 13} {
							inc := in
							inc.ReadChunk = chunk
							one(func() { c15E2ECheck(r, inc) })
						}
					}
				}
			}
		}
	}
	// one container printing the same line several times (equal lines are distinct entries), also next to another one
	dupA := c15Stream{Container: "c0", Entries: []c15Entry{{TS: base, Msg: "same"}, {TS: base + 3, Msg: "same"}, {TS: base + 3, Msg: "same"}, {TS: base + 9, Msg: "other"}, {TS: base + 12, Msg: "same"}}}
	dupB := c15Stream{Container: "c1", Entries: []c15Entry{{TS: base + 1, Msg: "same"}, {TS: base + 3, Msg: "same"}}}
	for _, f := range forms {
		for _, logs := range [][]c15Stream{{dupA}, {dupA, dupB}} {
			in := c15E2EInput{Args: f.args, Timestamp: f.ts, Container: f.ct, Color: f.co, Logs: logs}
			one(func() { c15E2ECheck(r, in) })
			in.Plugin = true
			one(func() { c15E2ECheck(r, in) })
		}
	}
	// --limit through the command's own wiring: 3 containers x 3 entries with distinct interleaved timestamps, every
	// limit from -1 to one above the number of entries, in both flag spellings, alone and through the plugin's root
	{
		var logs []c15Stream
		for i := 0; i < 3; i++ {
			s := c15Stream{Container: fmt.Sprintf("c%d", i)}
			for j := 0; j < 3; j++ {
				s.Entries = append(s.Entries, c15Entry{TS: base + int64(j*3+(2-i))*1000000007, Msg: fmt.Sprintf("m%d%d", i, j)})
			}
			logs = append(logs, s)
		}
		for fi, f := range forms {
			if fi%4 != 0 {
				continue
			}
			for lim := -1; lim <= 10; lim++ {
				for _, sp := range [][]string{{fmt.Sprintf("--limit=%d", lim)}, {"--limit", fmt.Sprint(lim)}} {
					for _, plug := range []bool{false, true} {
						l := lim
						in := c15E2EInput{Args: append(append([]string{}, f.args...), sp...), Timestamp: f.ts, Container: f.ct, Color: f.co, Logs: logs, Limit: &l, Plugin: plug}
						one(func() { c15E2ECheck(r, in) })
					}
				}
			}
		}
	}
	// the query text reaches the engine as it was typed: escaped quotes with runs of blanks between them, tabs and
	// line breaks inside and outside string literals, comments; both ways of reaching the command
	{
		mk := func(msgs ...string) []c15Stream {
			s := c15Stream{Container: "c0"}
			for j, m := range msgs {
				s.Entries = append(s.Entries, c15Entry{TS: base + int64(j)*1000000007, Msg: m})
			}
			return []c15Stream{s}
		}
		pick := func(logs []c15Stream, idx ...int) []c15Stream {
			s := c15Stream{Container: logs[0].Container}
			for _, i := range idx {
				s.Entries = append(s.Entries, logs[0].Entries[i])
			}
			return []c15Stream{s}
		}
		logs := mk(`msg="disk full"`, `msg="disk  full"`, "a\tb", "a b", `x  y`, `x y`, "#not a comment", "`q  q`")
		for _, qc := range []struct {
			q    string
			want []int
		}{
			{`{} |= "msg=\"disk  full\""`, []int{1}},
			{`{} |= "msg=\"disk full\""`, []int{0}},
			{"{} |= `x  y`", []int{4}},
			{`{}   |=   "x y"`, []int{5}},
			{"{}\n\t|= \"a\\tb\"", []int{2}},
			{"{} # all of them\n |= \"x\"", []int{4, 5}},
			{"{} |= \"#not\" # but this is one", []int{6}},
			{"{} |= \"`q  q`\"", []int{7}},
			{` {} |= "a" != "a b" `, []int{2, 6}},
		} {
			for fi, f := range forms {
				if fi%7 != 0 {
					continue
				}
				for _, plug := range []bool{false, true} {
					in := c15E2EInput{Args: f.args, Timestamp: f.ts, Container: f.ct, Color: f.co, Logs: logs, Query: qc.q, Want: pick(logs, qc.want...), Plugin: plug}
					one(func() { c15E2ECheck(r, in) })
				}
			}
		}
	}
	// one container whose lines take 12 different label sets under a parser stage (12 streams in the engine's result):
	// still one line per entry in time order
	{
		s := c15Stream{Container: "c0"}
		for j := 0; j < 12; j++ {
			s.Entries = append(s.Entries, c15Entry{TS: base + int64(j)*1000000007, Msg: fmt.Sprintf("k%d=v%d n=%d", j%4, j/4, j)})
		}
		js := c15Stream{Container: "c0"}
		for j := 0; j < 12; j++ {
			js.Entries = append(js.Entries, c15Entry{TS: base + int64(j)*1000000007, Msg: fmt.Sprintf(`{"k%d":"v%d","n":%d}`, j%4, j/4, j)})
		}
		for fi, f := range forms {
			if fi%3 != 0 {
				continue
			}
			for _, c := range []struct {
				q    string
				logs []c15Stream
			}{{`{} | logfmt`, []c15Stream{s}}, {`{container="c0"} | logfmt | drop n`, []c15Stream{s}}, {`{} | json`, []c15Stream{js}}, {`{} | json | drop n`, []c15Stream{js}}} {
				for _, plug := range []bool{false, true} {
					in := c15E2EInput{Args: f.args, Timestamp: f.ts, Container: f.ct, Color: f.co, Logs: c.logs, Query: c.q, Want: c.logs, Plugin: plug}
					one(func() { c15E2ECheck(r, in) })
				}
			}
		}
	}
	// --limit counts matching records, not records read: label filters after a parser stage, a line filter, and both,
	// over two containers whose first records do not match
	{
		var logs, wantErr, wantX []c15Stream
		for i := 0; i < 2; i++ {
			s, we, wx := c15Stream{Container: fmt.Sprintf("c%d", i)}, c15Stream{Container: fmt.Sprintf("c%d", i)}, c15Stream{Container: fmt.Sprintf("c%d", i)}
			for j := 0; j < 6; j++ {
				lvl := "info"
				if j >= 2 && (j+i)%2 == 0 {
					lvl = "error"
				}
				e := c15Entry{TS: base + int64(j*2+i)*1000000007, Msg: fmt.Sprintf("level=%s n=%d%d", lvl, i, j)}
				s.Entries = append(s.Entries, e)
				if lvl == "error" {
					we.Entries = append(we.Entries, e)
					if j >= 4 {
						wx.Entries = append(wx.Entries, e)
					}
				}
			}
			logs, wantErr, wantX = append(logs, s), append(wantErr, we), append(wantX, wx)
		}
		for fi, f := range forms {
			if fi%6 != 0 {
				continue
			}
			for _, c := range []struct {
				q    string
				want []c15Stream
			}{
				{`{} | logfmt | level="error"`, wantErr},
				{`{} |= "level=error"`, wantErr},
				{`{} | logfmt | level!="info"`, wantErr},
				{`{} | logfmt | level="error" | n=~".[45]"`, wantX},
				{`{} |= "error" | logfmt | n=~".[45]"`, wantX},
			} {
				for lim := 0; lim <= 5; lim++ {
					for _, plug := range []bool{false, true} {
						l := lim
						in := c15E2EInput{Args: append(append([]string{}, f.args...), fmt.Sprintf("--limit=%d", lim)), Timestamp: f.ts, Container: f.ct, Color: f.co, Logs: logs, Query: c.q, Want: c.want, Limit: &l, Plugin: plug}
						one(func() { c15E2ECheck(r, in) })
					}
				}
			}
		}
	}
	// the last bytes of a stream arrive together with io.EOF: whole stream in one Read, and in blocks of 7 and 64
	for fi, f := range forms {
		if fi%5 != 0 {
			continue
		}
		for n := 1; n <= 2; n++ {
			var logs []c15Stream
			for i := 0; i < n; i++ {
				s := c15Stream{Container: fmt.Sprintf("c%d", i)}
				for j := 0; j < 3; j++ {
					s.Entries = append(s.Entries, c15Entry{TS: base + int64(j*n+i)*1000000007, Msg: msgs[(i+j)%8]})
				}
				logs = append(logs, s)
			}
			for _, chunk := range []int{0, 7, 64} {
				for _, plug := range []bool{false, true} {
					in := c15E2EInput{Args: f.args, Timestamp: f.ts, Container: f.ct, Color: f.co, Logs: logs, EOFWithData: true, ReadChunk: chunk, Plugin: plug}
					one(func() { c15E2ECheck(r, in) })
				}
			}
		}
	}
	// large results: 700 and 1400 entries (output beyond 32 KiB and 64 KiB), read whole and in blocks of 4096 and 1000 bytes
	for fi, f := range forms {
		if fi%5 != 0 {
			continue
		}
		for _, big := range []int{1, 2} {
			for _, chunk := range []int{0, 4096, 1000} {
				in := c15E2EInput{Args: f.args, Timestamp: f.ts, Container: f.ct, Color: f.co, Big: big, ReadChunk: chunk}
				one(func() { c15E2ECheck(r, in) })
				if chunk == 4096 {
					in.Plugin = true
					one(func() { c15E2ECheck(r, in) })
				}
			}
		}
	}
	// results without entries: no container at all, no container matching, every line filtered out
	one1 := []c15Stream{{Container: "c0", Entries: []c15Entry{{TS: base, Msg: "m"}, {TS: base + 5, Msg: "n"}}}}
	for _, f := range forms {
		for _, e := range []c15E2EInput{
			{Logs: nil, Empty: true},
			{Logs: one1, Query: `{container="nosuch"}`, Empty: true},
			{Logs: one1, Query: `{} |= "no such text"`, Empty: true},
			{Logs: one1, Query: `{} | json | __error__=""`, Empty: true},
		} {
			in := e
			in.Args, in.Timestamp, in.Container, in.Color = f.args, f.ts, f.ct, f.co
			one(func() { c15E2ECheck(r, in) })
			in.Plugin = true
			one(func() { c15E2ECheck(r, in) })
		}
	}
	r.GlobalState("end-to-end")
}

func c15Replay(r *vkit.Run, v vkit.Violation) *vkit.Violation {
	if v.Check == "C15/e2e" {
		var in c15E2EInput
		if err := vkit.DecodeInput(v, &in); err != nil {
			r.HarnessError("bad input: %v", err)
		}
		return vkit.ReplayOne(r, func() { c15E2ECheck(r, in) })
	}
	var in c15Input
	if err := vkit.DecodeInput(v, &in); err != nil {
		r.HarnessError("bad input: %v", err)
	}
	return vkit.ReplayOne(r, func() { c15Check(r, in) })
}
