//go:build verif

package main

import (
	"encoding/json"
	"os"
	"testing"

	"github.com/tdakkota/docker-logql/internal/zzverif/vkit"
)

// TestVerifWorker is the worker entry point of the package-main harness (C15, C16, render part of C18):
// the test binary is the only way to reach renderResult / parseTimeRange / parseStep.
func TestVerifWorker(t *testing.T) {
	raw := os.Getenv("VERIF_ARGS")
	if raw == "" {
		t.Skip("not run by vcheck")
	}
	var args []string
	if err := json.Unmarshal([]byte(raw), &args); err != nil {
		t.Fatal(err)
	}
	vkit.MainArgs(args, map[string]vkit.Check{
		"C15":     {Run: c15Run, Replay: c15Replay},
		"C16":     {Run: c16Run, Replay: c16Replay},
		"C18":     {Run: c18Run, Replay: c18Replay},
		"C18RACE": {Run: c18RaceRun},
	})
}
