//go:build verif

// Command mcheck hosts the metric-query checks (C09-C13): bounded exhaustive enumeration of data sets,
// queries and grids evaluated by the real engine over a mock storage and compared with the reference model.
package main

import (
	"context"
	"fmt"
	"math"
	"sort"
	"strconv"
	"strings"
	"time"

	"go.opentelemetry.io/otel/trace/noop"

	"github.com/tdakkota/docker-logql/internal/logql/logqlengine"
	"github.com/tdakkota/docker-logql/internal/lokiapi"
	"github.com/tdakkota/docker-logql/internal/otelstorage"
	"github.com/tdakkota/docker-logql/internal/zzverif/mockq"
	"github.com/tdakkota/docker-logql/internal/zzverif/refmodel"
	"github.com/tdakkota/docker-logql/internal/zzverif/vsched"
)

const sec = int64(1e9)

type point struct {
	T int64   `json:"t_ms"`
	V float64 `json:"v"`
}

type engSeries struct {
	Labels refmodel.Labels `json:"labels"`
	Points []point         `json:"points"`
}

type engResult struct {
	Kind   string      `json:"kind"`
	Series []engSeries `json:"series"`
	Err    string      `json:"err,omitempty"`
	Panic  string      `json:"panic,omitempty"`
}

func (r engResult) String() string {
	if r.Panic != "" {
		return "panic: " + r.Panic
	}
	if r.Err != "" {
		return "error: " + r.Err
	}
	var parts []string
	for _, s := range r.Series {
		var ps []string
		for _, p := range s.Points {
			ps = append(ps, fmt.Sprintf("%g@%g", p.V, float64(p.T)/1000))
		}
		parts = append(parts, s.Labels.Key()+"="+strings.Join(ps, ","))
	}
	return r.Kind + "[" + strings.Join(parts, "; ") + "]"
}

func parseV(s string) float64 {
	f, err := strconv.ParseFloat(s, 64)
	if err != nil {
		return math.NaN()
	}
	return f
}

func tms(t float64) int64 { return int64(math.Round(t * 1000)) }

// evalEngine runs the real engine.
func evalEngine(q logqlengine.Querier, query string, startNS, endNS int64, step time.Duration) (res engResult) {
	return evalEngineCtx(nil, q, query, startNS, endNS, step)
}

// evalEngineCtx runs the real engine; map iterations inside it are choice points of c (nil: default order).
func evalEngineCtx(c *vsched.Ctx, q logqlengine.Querier, query string, startNS, endNS int64, step time.Duration) (res engResult) {
	return evalEngineLimit(c, q, query, startNS, endNS, step, -1)
}

// evalEngineLimit: as evalEngineCtx with the entry limit of the request (which a metric query must ignore).
func evalEngineLimit(c *vsched.Ctx, q logqlengine.Querier, query string, startNS, endNS int64, step time.Duration, limit int) (res engResult) {
	defer func() {
		if p := recover(); p != nil {
			res.Panic = fmt.Sprint(p)
		}
	}()
	var (
		data lokiapi.QueryResponseData
		err  error
	)
	vsched.WithMapOrder(c, func() {
		eng := logqlengine.NewEngine(q, logqlengine.Options{TracerProvider: noop.NewTracerProvider()})
		data, err = eng.Eval(context.Background(), query, logqlengine.EvalParams{
			Start: otelstorage.Timestamp(startNS), End: otelstorage.Timestamp(endNS), Step: step, Limit: limit,
		})
	})
	if err != nil {
		res.Err = err.Error()
		return res
	}
	return convertResult(data)
}

func convertResult(data lokiapi.QueryResponseData) (res engResult) {
	switch data.Type {
	case lokiapi.VectorResultQueryResponseData:
		res.Kind = "vector"
		for _, s := range data.VectorResult.Result {
			res.Series = append(res.Series, engSeries{Labels: refmodel.Labels(s.Metric.Value), Points: []point{{T: tms(s.Value.T), V: parseV(s.Value.V)}}})
		}
	case lokiapi.MatrixResultQueryResponseData:
		res.Kind = "matrix"
		for _, s := range data.MatrixResult.Result {
			es := engSeries{Labels: refmodel.Labels(s.Metric.Value)}
			for _, p := range s.Values {
				es.Points = append(es.Points, point{T: tms(p.T), V: parseV(p.V)})
			}
			res.Series = append(res.Series, es)
		}
	case lokiapi.ScalarResultQueryResponseData:
		res.Kind = "scalar"
		res.Series = []engSeries{{Labels: refmodel.Labels{}, Points: []point{{T: tms(data.ScalarResult.Result.T), V: parseV(data.ScalarResult.Result.V)}}}}
	default:
		res.Kind = string(data.Type)
	}
	for i := range res.Series {
		if res.Series[i].Labels == nil {
			res.Series[i].Labels = refmodel.Labels{}
		}
	}
	return res
}

// expectGrid evaluates the reference model on every grid time.
func expectGrid(e refmodel.Expr, data []mockq.Rec, times []int64, cv refmodel.Convention) (exp map[string][]point, labels map[string]refmodel.Labels, ambiguous bool, orderAt [][]string) {
	exp = map[string][]point{}
	labels = map[string]refmodel.Labels{}
	for _, t := range times {
		v := refmodel.EvalAt(e, data, t, cv)
		if v.Ambiguous {
			ambiguous = true
		}
		if v.IsScalar {
			k := refmodel.Labels{}.Key()
			exp[k] = append(exp[k], point{T: t / 1e6, V: v.S})
			labels[k] = refmodel.Labels{}
			continue
		}
		var ord []string
		for _, s := range v.V {
			k := s.Labels.Key()
			exp[k] = append(exp[k], point{T: t / 1e6, V: s.V})
			labels[k] = s.Labels
			ord = append(ord, k)
		}
		if v.Ordered {
			orderAt = append(orderAt, ord)
		}
	}
	return exp, labels, ambiguous, orderAt
}

// compare returns "" when the engine result equals the expectation.
func compare(res engResult, exp map[string][]point, orderAt [][]string) string {
	if res.Panic != "" {
		return "panic: " + res.Panic
	}
	if res.Err != "" {
		return "evaluation failed: " + res.Err
	}
	got := map[string][]point{}
	for _, s := range res.Series {
		k := s.Labels.Key()
		if _, dup := got[k]; dup {
			return "two result series carry the same label set " + k
		}
		if len(s.Points) == 0 {
			continue
		}
		got[k] = s.Points
	}
	var keys []string
	for k := range exp {
		keys = append(keys, k)
	}
	sort.Strings(keys)
	for _, k := range keys {
		g, ok := got[k]
		if !ok {
			return "series " + k + " missing from the result"
		}
		e := exp[k]
		if len(g) != len(e) {
			return fmt.Sprintf("series %s has %d points, expected %d", k, len(g), len(e))
		}
		for i := range e {
			if g[i].T != e[i].T {
				return fmt.Sprintf("series %s: point %d stamped %gs, expected %gs", k, i, float64(g[i].T)/1000, float64(e[i].T)/1000)
			}
			if !refmodel.FloatEq(g[i].V, e[i].V) {
				return fmt.Sprintf("series %s at %gs: value %g, expected %g", k, float64(e[i].T)/1000, g[i].V, e[i].V)
			}
		}
	}
	for k := range got {
		if _, ok := exp[k]; !ok {
			return "unexpected series " + k + " in the result"
		}
	}
	if len(orderAt) == 1 && res.Kind == "vector" {
		// order is observable for instant sort/sort_desc: values must be monotone as documented
		var vals []float64
		for _, s := range res.Series {
			vals = append(vals, s.Points[0].V)
		}
		var want []float64
		for _, k := range orderAt[0] {
			want = append(want, exp[k][0].V)
		}
		for i := range vals {
			if i < len(want) && !refmodel.FloatEq(vals[i], want[i]) {
				return fmt.Sprintf("sorted output has values %v, expected order %v", vals, want)
			}
		}
	}
	return ""
}

func gridTimes(startNS, endNS, stepNS int64) []int64 {
	if stepNS <= 0 {
		return []int64{startNS}
	}
	var out []int64
	for t := startNS; t <= endNS; t += stepNS {
		out = append(out, t)
	}
	return out
}
