//go:build verif

package main

import (
	"fmt"
	"strings"
	"time"

	"github.com/tdakkota/docker-logql/internal/zzverif/mockq"
	"github.com/tdakkota/docker-logql/internal/zzverif/refmodel"
	"github.com/tdakkota/docker-logql/internal/zzverif/vkit"
)

var c13Ops = []string{"+", "-", "*", "/", "%", "^", "==", "!=", ">", ">=", "<", "<=", "and", "or", "unless"}

// c13Input is a token sequence: atoms are numbers (printed as vector(n)), operators, parentheses.
type c13Input struct {
	Tokens []string `json:"tokens"`
	// Tree is the generator's own tree in prefix form (empty for plain chains: conventional reading of Tokens).
	Tree string `json:"tree,omitempty"`
}

func c13Text(tokens []string) string {
	var sb strings.Builder
	for i, t := range tokens {
		if i > 0 {
			sb.WriteByte(' ')
		}
		if t == "(" || t == ")" || refmodel.Precedence(t) > 0 {
			sb.WriteString(t)
		} else if strings.HasPrefix(t, "#") {
			sb.WriteString(t[1:]) // a scalar literal
		} else {
			sb.WriteString("vector(" + t + ")")
		}
	}
	return sb.String()
}

// c13Parse is a reference precedence parser over the token list. rightAll = every operator
// associates to the right (the shape the known defect produces); otherwise the arithmetic convention.
type c13Parser struct {
	toks     []string
	pos      int
	rightAll bool
}

func (p *c13Parser) peek() string {
	if p.pos < len(p.toks) {
		return p.toks[p.pos]
	}
	return ""
}

func (p *c13Parser) atom() refmodel.Expr {
	t := p.peek()
	p.pos++
	if t == "(" {
		e := p.expr(1)
		p.pos++ // ")"
		return e
	}
	var f float64
	if strings.HasPrefix(t, "#") {
		fmt.Sscanf(t[1:], "%g", &f)
		return &refmodel.Lit{V: f}
	}
	fmt.Sscanf(t, "%g", &f)
	return &refmodel.Vec{V: f}
}

func (p *c13Parser) expr(minPrec int) refmodel.Expr {
	left := p.atom()
	for {
		op := p.peek()
		prec := refmodel.Precedence(op)
		if prec == 0 || prec < minPrec {
			return left
		}
		p.pos++
		next := prec + 1
		if op == "^" || p.rightAll {
			next = prec
		}
		right := p.expr(next)
		left = &refmodel.Bin{Op: op, L: left, R: right}
	}
}

func c13Tree(tokens []string, rightAll bool) refmodel.Expr {
	p := &c13Parser{toks: tokens, rightAll: rightAll}
	return p.expr(1)
}

func prefix(e refmodel.Expr) string {
	if b, ok := e.(*refmodel.Bin); ok {
		return "(" + b.Op + " " + prefix(b.L) + " " + prefix(b.R) + ")"
	}
	return e.Text()
}

func c13Val(e refmodel.Expr, cv refmodel.Convention) string {
	v := refmodel.EvalAt(e, nil, 10*sec, cv)
	if len(v.V) == 0 {
		return "empty"
	}
	return fmt.Sprintf("%v", v.V[0].V)
}

func c13Check(r *vkit.Run, in c13Input) (separated bool) {
	r.Begin("C13", in)
	text := c13Text(in.Tokens)
	conv := c13Tree(in.Tokens, false)
	if in.Tree != "" && prefix(conv) != in.Tree {
		r.HarnessError("generator printed %q for tree %s but the conventional reading is %s", text, in.Tree, prefix(conv))
	}
	res := evalEngine(mockq.New(nil), text, 10*sec, 10*sec, 0)
	r.Eval()
	r.Step(len(in.Tokens))
	ok := false
	var lastWhy string
	for _, cv := range []refmodel.Convention{{FalseIsZero: true}, {FalseIsZero: false}} {
		exp, _, _, _ := expectGrid(conv, nil, []int64{10 * sec}, cv)
		why := compare(res, exp, nil)
		if why == "" {
			ok = true
			// the same chain as a range query of three steps: constants give the same value at every step
			times := []int64{10 * sec, 11 * sec, 12 * sec}
			rres := evalEngine(mockq.New(nil), text, times[0], times[2], time.Second)
			r.Eval()
			rexp, _, _, _ := expectGrid(conv, nil, times, cv)
			if rwhy := compare(rres, rexp, nil); rwhy != "" {
				r.Fail("C13/range", in, nil, map[string]any{"query": text, "result": rres.String(), "instant": res.String()}, rexp,
					fmt.Sprintf("%s as a range query of three steps: %s (the instant query gives %s)", text, rwhy, res.String()), "")
			}
			break
		}
		lastWhy = why
	}
	quirk := c13Tree(in.Tokens, true)
	separated = prefix(quirk) != prefix(conv) &&
		(c13Val(quirk, refmodel.Convention{FalseIsZero: true}) != c13Val(conv, refmodel.Convention{FalseIsZero: true}))
	if ok {
		return separated
	}
	// Attribute to the known finding iff the engine computed exactly the right-nested reading.
	finding := ""
	if prefix(quirk) != prefix(conv) {
		for _, cv := range []refmodel.Convention{{FalseIsZero: true}, {FalseIsZero: false}} {
			exp, _, _, _ := expectGrid(quirk, nil, []int64{10 * sec}, cv)
			if compare(res, exp, nil) == "" {
				finding = "C13-equal-precedence-nests-right"
			}
		}
	}
	if finding == "" && prefix(quirk) != prefix(conv) && strings.Contains(res.Err, "LiteralExpr is not supported") && c13HasLitLit(quirk) && !c13HasLitLit(conv) {
		// the right-nested reading puts two literals under one operator, which this engine then refuses to evaluate:
		// the same known finding, seen as an error instead of as another value
		finding = "C13-equal-precedence-nests-right"
	}
	r.Fail("C13", in, nil, map[string]any{"query": text, "result": res.String()},
		map[string]any{"conventional_tree": prefix(conv), "value": c13Val(conv, refmodel.Convention{FalseIsZero: true})},
		fmt.Sprintf("%s evaluates to %s, its conventional reading %s gives %s (%s)", text, res.String(), prefix(conv), c13Val(conv, refmodel.Convention{FalseIsZero: true}), lastWhy), finding)
	return separated
}

// c13HasLitLit: some operator of the tree has two scalar literals as its operands.
func c13HasLitLit(e refmodel.Expr) bool {
	b, ok := e.(*refmodel.Bin)
	if !ok {
		return false
	}
	_, l := b.L.(*refmodel.Lit)
	_, r := b.R.(*refmodel.Lit)
	return (l && r) || c13HasLitLit(b.L) || c13HasLitLit(b.R)
}

// c13Print prints a tree with only the parentheses the convention requires (redundant=false) or with a
// redundant pair around every sub-expression as well (redundant=true).
func c13Print(e refmodel.Expr, redundant bool) []string {
	b, ok := e.(*refmodel.Bin)
	if !ok {
		if l, isLit := e.(*refmodel.Lit); isLit {
			return []string{fmt.Sprintf("#%g", l.V)}
		}
		v := e.(*refmodel.Vec)
		t := []string{fmt.Sprintf("%g", v.V)}
		if redundant {
			return append(append([]string{"("}, t...), ")")
		}
		return t
	}
	side := func(c refmodel.Expr, isRight bool) []string {
		toks := c13Print(c, redundant)
		cb, ok := c.(*refmodel.Bin)
		need := false
		if ok {
			pp, cp := refmodel.Precedence(b.Op), refmodel.Precedence(cb.Op)
			switch {
			case cp < pp:
				need = true
			case cp == pp:
				rightAssoc := b.Op == "^"
				// the child sits on the side the operator does not associate to
				need = isRight != rightAssoc
			}
		}
		if need || (redundant && ok) {
			return append(append([]string{"("}, toks...), ")")
		}
		return toks
	}
	out := side(b.L, false)
	out = append(out, b.Op)
	return append(out, side(b.R, true)...)
}

func c13Run(r *vkit.Run) {
	tuples := [][]string{{"7", "3", "2", "5", "11"}, {"2", "3", "2", "0", "1"}}
	idx := 0
	nsep := 0
	// (a) all chains of 2..5 operands over the 15 operators
	maxOps := 4
	var ops []string
	var rec func(n int)
	rec = func(n int) {
		if n > 0 {
			idx++
			if r.Mine(idx) && !r.Stop() {
				sepAny := false
				for _, tu := range tuples {
					var toks []string
					for i := 0; i <= n; i++ {
						toks = append(toks, tu[i])
						if i < n {
							toks = append(toks, ops[i])
						}
					}
					if c13Check(r, c13Input{Tokens: toks}) {
						sepAny = true
					}
					if r.WantSample() && n == 4 {
						r.Sample(map[string]any{"query": c13Text(toks), "conventional_tree": prefix(c13Tree(toks, false))})
					}
				}
				if sepAny {
					nsep++
					r.NonTrivial()
				}
				r.State(strings.Join(ops[:n], " "))
			}
		}
		if n == maxOps {
			return
		}
		for _, op := range c13Ops {
			ops = append(ops[:n], op)
			rec(n + 1)
		}
	}
	rec(0)
	// (b) all binary trees with <= K operators, printed with minimal and with redundant parentheses
	K := 3
	opset := c13Ops
	if r.Thorough() {
		K = 4
	}
	leaf := 0
	vals := []float64{7, 3, 2, 5, 11}
	var shapes func(n int) []func() refmodel.Expr
	_ = shapes
	var build func(n int, emit func(refmodel.Expr))
	build = func(n int, emit func(refmodel.Expr)) {
		if n == 0 {
			emit(nil)
			return
		}
		for l := 0; l < n; l++ {
			build(l, func(le refmodel.Expr) {
				build(n-1-l, func(re refmodel.Expr) {
					emit(&refmodel.Bin{L: le, R: re})
				})
			})
		}
	}
	var fill func(e refmodel.Expr, opsLeft []string) refmodel.Expr
	fill = func(e refmodel.Expr, _ []string) refmodel.Expr { return e }
	for n := 2; n <= K; n++ {
		build(n, func(shape refmodel.Expr) {
			// assign operators (all combinations) and operand values (left to right)
			var nodes []*refmodel.Bin
			var collect func(e refmodel.Expr)
			collect = func(e refmodel.Expr) {
				if b, ok := e.(*refmodel.Bin); ok && b != nil {
					collect(b.L)
					nodes = append(nodes, b)
					collect(b.R)
				}
			}
			collect(shape)
			var assign func(i int)
			assign = func(i int) {
				if i == len(nodes) {
					idx++
					if !r.Mine(idx) || r.Stop() {
						return
					}
					leaf = 0
					var clone func(e refmodel.Expr) refmodel.Expr
					clone = func(e refmodel.Expr) refmodel.Expr {
						b, ok := e.(*refmodel.Bin)
						if !ok || b == nil {
							v := vals[leaf%len(vals)]
							leaf++
							return &refmodel.Vec{V: v}
						}
						l := clone(b.L)
						rr := clone(b.R)
						return &refmodel.Bin{Op: b.Op, L: l, R: rr}
					}
					tree := clone(shape)
					for _, red := range []bool{false, true} {
						toks := c13Print(tree, red)
						if c13Check(r, c13Input{Tokens: toks, Tree: prefix(tree)}) {
							r.NonTrivial()
						}
						if red && n == 2 {
							// every pair of parentheses doubled: ((x)) means x
							var dbl []string
							for _, t := range toks {
								if t == "(" || t == ")" {
									dbl = append(dbl, t)
								}
								dbl = append(dbl, t)
							}
							c13Check(r, c13Input{Tokens: dbl, Tree: prefix(tree)})
						}
					}
					return
				}
				for _, op := range opset {
					nodes[i].Op = op
					assign(i + 1)
				}
			}
			assign(0)
		})
	}
	_ = fill
	// (c) scalar literals among the operands: both shapes of two arithmetic operators, every placement of one or
	// two literals (parentheses around an operation with a literal must keep their meaning)
	arith := []string{"+", "-", "*", "/", "%", "^"}
	lv := []float64{10, 3, 2}
	for _, op1 := range arith {
		for _, op2 := range arith {
			for mask := 1; mask <= 6; mask++ {
				idx++
				if !r.Mine(idx) || r.Stop() {
					continue
				}
				leafE := func(i int) refmodel.Expr {
					if mask&(1<<i) != 0 {
						return &refmodel.Lit{V: lv[i]}
					}
					return &refmodel.Vec{V: lv[i]}
				}
				for ti, tree := range []refmodel.Expr{
					&refmodel.Bin{Op: op2, L: &refmodel.Bin{Op: op1, L: leafE(0), R: leafE(1)}, R: leafE(2)},
					&refmodel.Bin{Op: op1, L: leafE(0), R: &refmodel.Bin{Op: op2, L: leafE(1), R: leafE(2)}},
				} {
					if (ti == 0 && mask&3 == 3) || (ti == 1 && mask&6 == 6) {
						continue // an operation between two literals as an operand: this engine reports it as unsupported
					}
					for _, red := range []bool{false, true} {
						if c13Check(r, c13Input{Tokens: c13Print(tree, red), Tree: prefix(tree)}) {
							r.NonTrivial()
						}
					}
				}
			}
		}
	}
	// (d) an operation with a scalar literal as an operand of a set operator (the operation is a vector, whichever side
	// its literal is on)
	for _, op1 := range []string{"+", "-", "*", "/", "^", ">", "=="} {
		for _, op2 := range []string{"and", "or", "unless"} {
			idx++
			if !r.Mine(idx) || r.Stop() {
				continue
			}
			lit, v1, v2 := &refmodel.Lit{V: 2}, &refmodel.Vec{V: 3}, &refmodel.Vec{V: 4}
			for _, tree := range []refmodel.Expr{
				&refmodel.Bin{Op: op2, L: &refmodel.Bin{Op: op1, L: lit, R: v1}, R: v2},
				&refmodel.Bin{Op: op2, L: &refmodel.Bin{Op: op1, L: v1, R: lit}, R: v2},
				&refmodel.Bin{Op: op2, L: v2, R: &refmodel.Bin{Op: op1, L: lit, R: v1}},
				&refmodel.Bin{Op: op2, L: v2, R: &refmodel.Bin{Op: op1, L: v1, R: lit}},
				&refmodel.Bin{Op: op2, L: &refmodel.Bin{Op: op1, L: lit, R: v1}, R: &refmodel.Bin{Op: op1, L: v2, R: lit}},
			} {
				for _, red := range []bool{false, true} {
					if c13Check(r, c13Input{Tokens: c13Print(tree, red), Tree: prefix(tree)}) {
						r.NonTrivial()
					}
				}
			}
		}
	}
	r.Count("chains_where_right_nesting_changes_the_value", int64(nsep))
	r.Note("bounds", fmt.Sprintf("all chains of 2..5 operands over 15 operators (54240 chains) x 2 operand tuples; all binary trees with 2..%d operators over %d operators printed with minimal, with redundant and (two operators) with doubled redundant parentheses; both shapes of two arithmetic operators with every placement of one or two scalar literals; operations with a literal as operands of set operators; instant queries", K, len(opset)))
}

func c13Replay(r *vkit.Run, v vkit.Violation) *vkit.Violation {
	var in c13Input
	if err := vkit.DecodeInput(v, &in); err != nil {
		r.HarnessError("bad input: %v", err)
	}
	return vkit.ReplayOne(r, func() { c13Check(r, in) })
}
