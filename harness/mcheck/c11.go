//go:build verif

package main

import (
	"fmt"
	"strconv"
	"strings"
	"time"

	"github.com/tdakkota/docker-logql/internal/zzverif/mockq"
	"github.com/tdakkota/docker-logql/internal/zzverif/refmodel"
	"github.com/tdakkota/docker-logql/internal/zzverif/vkit"
	"github.com/tdakkota/docker-logql/internal/zzverif/vsched"
)

var c11Series = [][]mockq.KV{
	{{K: "a", V: "1"}, {K: "b", V: "x"}},
	{{K: "a", V: "1"}, {K: "b", V: "y"}},
	{{K: "a", V: "2"}, {K: "b", V: "x"}},
	{{K: "a", V: "2"}, {K: "b", V: "y"}},
	{{K: "a", V: "1"}, {K: "b", V: "x"}, {K: "c", V: "z"}},
	{{K: "a", V: "2"}, {K: "b", V: "y"}, {K: "c", V: "z"}},
}

var (
	c11Counts = []int{1, 2, 3, 5}
	c11Values = []string{"-2.5", "0.5", "7", "-1"}
)

type c11Input struct {
	Series []int  `json:"series"` // indexes into the series alphabet; the i-th gets the i-th distinct value
	Unwrap bool   `json:"unwrap"` // values through sum_over_time(unwrap v) instead of counts
	Query  string `json:"query"`  // template id
	Range  bool   `json:"range"`
	Bound  int    `json:"bound"` // MAPITER deviation bound
	// Inner: grouping clause on the range aggregation itself (avg_over_time ... by/without), "" = none.
	Inner string `json:"inner,omitempty"`
	// Big: instead of Series, an input vector of Big series {a=i%3, b=i} with pairwise distinct counts in a scrambled order.
	Big int `json:"big,omitempty"`
	// Special: the unwrapped values come from this set of special floats instead (see c11Special).
	Special string `json:"special,omitempty"`
	// Mult: with Big, series i holds 1 + (i*Mult) mod Big records (0 = 7): which series carries which value, and so the
	// order in which values reach a heap or a sort, differs from one multiplier to the next.
	Mult int `json:"mult,omitempty"`
	// Stagger: series i starts 4*i seconds later: over the steps of a range query the vector grows from one series
	// to all of them (instead of starting complete and thinning out).
	Stagger bool `json:"stagger,omitempty"`
	// Typed: the labels a and b reach the engine as JSON values extracted by `| json` (a as a number, b as a string, c
	// as a boolean), not as string attributes.
	Typed bool `json:"typed,omitempty"`
	// RangeOp (with Unwrap): the range function under the aggregation ("" = sum_over_time): max / avg / first over time do
	// not commute with grouping, so grouping the streams before the range function runs gives other values.
	RangeOp string `json:"range_op,omitempty"`
}

// c11Special: values that do not order or do not cancel. sum/avg propagate them by IEEE arithmetic whatever the
// order of addition, count counts the series all the same, min/max are defined for infinities.
var c11Special = map[string][]string{
	"nan-first": {"NaN", "0.5", "7", "-1"},
	"nan-last":  {"-2.5", "0.5", "7", "NaN"},
	"inf-first": {"+Inf", "0.5", "7", "-1"},
	"inf-mid":   {"-2.5", "+Inf", "7", "-1"},
	"inf-both":  {"-2.5", "+Inf", "-Inf", "-1"},
	"neg-inf":   {"-2.5", "0.5", "-Inf", "-1"},
	// large values that lie close together: a variance computed from sums of squares cancels catastrophically
	"large-close": {"10000001", "10000002", "10000004", "10000003"},
	"large-mixed": {"1e15", "1", "-1e15", "2"},
	// a value that equals the mean of the ones before it, in several arrival orders
	"mean-hit":  {"2", "2", "5", "3"},
	"mean-hit2": {"1", "3", "2", "2"},
}

var c11Inner = map[string]*refmodel.Grouping{
	"by(a)": g(false, "a"), "by(a,b)": g(false, "a", "b"), "without(a)": g(true, "a"), "without(v,c)": g(true, "v", "c"),
	"by()": g(false), "without()": g(true),
}

func g(without bool, labels ...string) *refmodel.Grouping {
	if labels == nil {
		labels = []string{}
	}
	return &refmodel.Grouping{Without: without, Labels: labels}
}

func ip(v int) *int { return &v }

type c11Template struct {
	name  string
	build func(x refmodel.Expr) refmodel.Expr
	// instantOnly: order is observable only there
	instantOnly bool
}

func c11Templates() []c11Template {
	var out []c11Template
	groupings := []struct {
		name string
		g    *refmodel.Grouping
	}{
		{"", nil}, {" by()", g(false)}, {" by(a)", g(false, "a")}, {" by(b)", g(false, "b")}, {" by(a,b)", g(false, "a", "b")},
		{" by(zz)", g(false, "zz")}, {" without()", g(true)}, {" without(a)", g(true, "a")}, {" without(a,zz)", g(true, "a", "zz")},
	}
	for _, op := range []string{"sum", "avg", "min", "max", "count", "stddev", "stdvar"} {
		for _, gr := range groupings {
			op, gr := op, gr
			out = append(out, c11Template{name: op + gr.name, build: func(x refmodel.Expr) refmodel.Expr {
				return &refmodel.VecAgg{Op: op, Grouping: gr.g, X: x}
			}})
		}
	}
	for _, op := range []string{"topk", "bottomk"} {
		for _, k := range []int{1, 2, 5, 6, 9, 12} {
			for gi, gr := range groupings[:5] {
				if k > 5 && gi != 0 && gi != 2 {
					continue // the larger k: ungrouped and by(a) only
				}
				op, k, gr := op, k, gr
				out = append(out, c11Template{name: fmt.Sprintf("%s(%d)%s", op, k, gr.name), build: func(x refmodel.Expr) refmodel.Expr {
					return &refmodel.VecAgg{Op: op, Param: ip(k), Grouping: gr.g, X: x}
				}})
			}
		}
	}
	va := func(op string, gr *refmodel.Grouping, x refmodel.Expr) refmodel.Expr {
		return &refmodel.VecAgg{Op: op, Grouping: gr, X: x}
	}
	tk := func(op string, k int, gr *refmodel.Grouping, x refmodel.Expr) refmodel.Expr {
		return &refmodel.VecAgg{Op: op, Param: ip(k), Grouping: gr, X: x}
	}
	nest := []c11Template{
		{name: "sort", instantOnly: true, build: func(x refmodel.Expr) refmodel.Expr { return va("sort", nil, x) }},
		{name: "sort_desc", instantOnly: true, build: func(x refmodel.Expr) refmodel.Expr { return va("sort_desc", nil, x) }},
		{name: "sum by(a)(sum by(a,b))", build: func(x refmodel.Expr) refmodel.Expr { return va("sum", g(false, "a"), va("sum", g(false, "a", "b"), x)) }},
		{name: "sum by(a)(sum by(b,a))", build: func(x refmodel.Expr) refmodel.Expr { return va("sum", g(false, "a"), va("sum", g(false, "b", "a"), x)) }},
		{name: "max by(b)(sum by(c,b,a))", build: func(x refmodel.Expr) refmodel.Expr {
			return va("max", g(false, "b"), va("sum", g(false, "c", "b", "a"), x))
		}},
		{name: "count by(b,a)(min by(b,a))", build: func(x refmodel.Expr) refmodel.Expr {
			return va("count", g(false, "b", "a"), va("min", g(false, "b", "a"), x))
		}},
		{name: "sum by(b)(sum by(a))", build: func(x refmodel.Expr) refmodel.Expr { return va("sum", g(false, "b"), va("sum", g(false, "a"), x)) }},
		{name: "max without(b)(sum by(a,b))", build: func(x refmodel.Expr) refmodel.Expr { return va("max", g(true, "b"), va("sum", g(false, "a", "b"), x)) }},
		{name: "topk(1, sum by(a))", build: func(x refmodel.Expr) refmodel.Expr { return tk("topk", 1, nil, va("sum", g(false, "a"), x)) }},
		{name: "sum(topk(2))", build: func(x refmodel.Expr) refmodel.Expr { return va("sum", nil, tk("topk", 2, nil, x)) }},
		{name: "count by(a)(max by(a,b))", build: func(x refmodel.Expr) refmodel.Expr {
			return va("count", g(false, "a"), va("max", g(false, "a", "b"), x))
		}},
		{name: "sum by(a)(sum without(b))", build: func(x refmodel.Expr) refmodel.Expr { return va("sum", g(false, "a"), va("sum", g(true, "b"), x)) }},
		{name: "sum without(a)(sum by(a,b))", build: func(x refmodel.Expr) refmodel.Expr { return va("sum", g(true, "a"), va("sum", g(false, "a", "b"), x)) }},
		{name: "min(max by(b)(sum by(a,b)))", build: func(x refmodel.Expr) refmodel.Expr {
			return va("min", nil, va("max", g(false, "b"), va("sum", g(false, "a", "b"), x)))
		}},
		{name: "sum without(b)(sum without(a))", build: func(x refmodel.Expr) refmodel.Expr { return va("sum", g(true, "b"), va("sum", g(true, "a"), x)) }},
		{name: "max without(a)(min without(c,b))", build: func(x refmodel.Expr) refmodel.Expr { return va("max", g(true, "a"), va("min", g(true, "c", "b"), x)) }},
		{name: "count without(c)(sum without(c)(sum without(a)))", build: func(x refmodel.Expr) refmodel.Expr {
			return va("count", g(true, "c"), va("sum", g(true, "c"), va("sum", g(true, "a"), x)))
		}},
		{name: "sum by(b)(count by(a,b))", build: func(x refmodel.Expr) refmodel.Expr {
			return va("sum", g(false, "b"), va("count", g(false, "a", "b"), x))
		}},
		{name: "sum by(c)(sum by(a))", build: func(x refmodel.Expr) refmodel.Expr { return va("sum", g(false, "c"), va("sum", g(false, "a"), x)) }},
		{name: "sort(sum by(a))", instantOnly: true, build: func(x refmodel.Expr) refmodel.Expr { return va("sort", nil, va("sum", g(false, "a"), x)) }},
		{name: "sort_desc(max by(b))", instantOnly: true, build: func(x refmodel.Expr) refmodel.Expr { return va("sort_desc", nil, va("max", g(false, "b"), x)) }},
		{name: "bottomk(1, sum by(b))", build: func(x refmodel.Expr) refmodel.Expr { return tk("bottomk", 1, nil, va("sum", g(false, "b"), x)) }},
		{name: "avg by(a)(count by(a,b))", build: func(x refmodel.Expr) refmodel.Expr {
			return va("avg", g(false, "a"), va("count", g(false, "a", "b"), x))
		}},
		{name: "sum by(a)(max by(a)(sum by(a,b)))", build: func(x refmodel.Expr) refmodel.Expr {
			return va("sum", g(false, "a"), va("max", g(false, "a"), va("sum", g(false, "a", "b"), x)))
		}},
		{name: "topk(1) by(a)(sum by(a,b))", build: func(x refmodel.Expr) refmodel.Expr {
			return tk("topk", 1, g(false, "a"), va("sum", g(false, "a", "b"), x))
		}},
		// a sort over a grouped topk / bottomk orders the whole vector, not each group
		{name: "sort_desc(topk(2) by(a))", instantOnly: true, build: func(x refmodel.Expr) refmodel.Expr { return va("sort_desc", nil, tk("topk", 2, g(false, "a"), x)) }},
		{name: "sort(bottomk(2) by(b))", instantOnly: true, build: func(x refmodel.Expr) refmodel.Expr { return va("sort", nil, tk("bottomk", 2, g(false, "b"), x)) }},
		{name: "sort_desc(topk(5) by(a,b))", instantOnly: true, build: func(x refmodel.Expr) refmodel.Expr { return va("sort_desc", nil, tk("topk", 5, g(false, "a", "b"), x)) }},
		// one label set grouped by two different lists, one after the other
		{name: "sum by(a)(topk(5) by(b))", build: func(x refmodel.Expr) refmodel.Expr { return va("sum", g(false, "a"), tk("topk", 5, g(false, "b"), x)) }},
		{name: "count by(b)(bottomk(2) by(a))", build: func(x refmodel.Expr) refmodel.Expr {
			return va("count", g(false, "b"), tk("bottomk", 2, g(false, "a"), x))
		}},
		{name: "max by(a,b)(topk(2) by(a))", build: func(x refmodel.Expr) refmodel.Expr {
			return va("max", g(false, "a", "b"), tk("topk", 2, g(false, "a"), x))
		}},
		{name: "sum without(a)(bottomk(5) by(a))", build: func(x refmodel.Expr) refmodel.Expr {
			return va("sum", g(true, "a"), tk("bottomk", 5, g(false, "a"), x))
		}},
		{name: "count(sum by(a,b))", build: func(x refmodel.Expr) refmodel.Expr { return va("count", nil, va("sum", g(false, "a", "b"), x)) }},
		{name: "sum by()(count by(b))", build: func(x refmodel.Expr) refmodel.Expr { return va("sum", g(false), va("count", g(false, "b"), x)) }},
	}
	return append(out, nest...)
}

var c11Tmpl = c11Templates()

func c11Build(in c11Input) ([]mockq.Rec, refmodel.Expr, bool) {
	var data []mockq.Rec
	mult := in.Mult
	if mult == 0 {
		mult = 7
	}
	for i := 0; i < in.Big; i++ {
		n := 1 + (i*mult)%in.Big // distinct counts 1..Big in scrambled order (the multiplier is coprime to the size)
		labels := []mockq.KV{{K: "a", V: strconv.Itoa(i % 3)}, {K: "b", V: "s" + strconv.Itoa(i)}}
		for j := 0; j < n; j++ {
			data = append(data, mockq.Rec{TS: (c09Base+int64(j%9))*sec + int64(i*100+j), Line: "", Labels: labels})
		}
	}
	for i, si := range in.Series {
		n := c11Counts[i]
		labels := append([]mockq.KV(nil), c11Series[si]...)
		if in.Unwrap {
			n = 1 + i%2
			v := c11Values[i]
			if in.Special != "" {
				v = c11Special[in.Special][i]
				n = 1 // the series' values are exactly the listed ones
			}
			labels = append(labels, mockq.KV{K: "v", V: v})
		}
		if in.RangeOp != "" {
			n = 2 // two records per series, so that max / avg / first over one stream differ from those over a merged group
		}
		line := ""
		if in.Typed {
			// a: number, b: string, c: boolean; the line itself is dropped again by the pipeline
			parts := []string{}
			for _, kv := range labels {
				switch kv.K {
				case "a":
					parts = append(parts, `"a":`+kv.V)
				case "c":
					parts = append(parts, `"c":true`)
				default:
					parts = append(parts, `"`+kv.K+`":"`+kv.V+`"`)
				}
			}
			line = "{" + strings.Join(parts, ",") + "}"
			labels = nil
		}
		for j := 0; j < n; j++ {
			ts := (c09Base+int64(j*3))*sec + int64(i)
			if in.Stagger {
				ts += int64(i) * 4 * sec
			}
			recLabels := labels
			if in.RangeOp != "" && j == 1 {
				// the second record of a series carries another value (v is removed from the series' labels by unwrap)
				recLabels = append([]mockq.KV(nil), labels[:len(labels)-1]...)
				recLabels = append(recLabels, mockq.KV{K: "v", V: strconv.Itoa(10 * (i + 1))})
			}
			data = append(data, mockq.Rec{TS: ts, Line: line, Labels: recLabels})
		}
	}
	var stages []refmodel.Stage
	if in.Typed {
		stages = []refmodel.Stage{&refmodel.JSONStage{}, &refmodel.Drop{Items: []refmodel.DKItem{{Label: "msg"}}}}
	}
	var x refmodel.Expr = &refmodel.RangeAgg{Op: "count_over_time", RangeNS: 10 * sec, Stages: stages}
	if in.Unwrap {
		x = &refmodel.RangeAgg{Op: "sum_over_time", Unwrap: "v", RangeNS: 10 * sec, Stages: stages}
		if in.RangeOp != "" {
			x = &refmodel.RangeAgg{Op: in.RangeOp, Unwrap: "v", RangeNS: 10 * sec, Stages: stages}
		}
	}
	if in.Inner != "" {
		x = &refmodel.RangeAgg{Op: "max_over_time", Unwrap: "v", RangeNS: 10 * sec, Grouping: c11Inner[in.Inner]}
	}
	for _, t := range c11Tmpl {
		if t.name == in.Query {
			return data, t.build(x), t.instantOnly
		}
	}
	panic("unknown template " + in.Query)
}

func c11Check(r *vkit.Run, in c11Input, replay []int) {
	data, expr, _ := c11Build(in)
	start := (c09Base + 2) * sec
	end, step := start, int64(0)
	if in.Range {
		end, step = start+10*sec, 5*sec
	} else {
		start = (c09Base + 9) * sec
		end = start
	}
	times := gridTimes(start, end, step)
	exp, _, amb, orderAt := expectGrid(expr, data, times, refmodel.Convention{})
	if amb {
		r.Count("skipped_ambiguous_topk_ties", 1)
		return
	}
	body := func(c *vsched.Ctx) {
		r.BeginChoices("C11", in, c.Prefix())
		res := evalEngineCtx(c, mockq.New(data), expr.Text(), start, end, time.Duration(step))
		r.Eval()
		if why := compare(res, exp, orderAt); why != "" {
			r.Fail("C11", in, c.TrimmedChoices(), map[string]any{"query": expr.Text(), "result": res.String()}, exp,
				fmt.Sprintf("%s over %d input series: %s", expr.Text(), len(in.Series), why), c11Classify(in, res, data, times))
		}
		if c.Diverged != "" {
			r.HarnessError("replay divergence: %s", c.Diverged)
		}
	}
	if replay != nil {
		body(vsched.NewCtx(replay))
		return
	}
	st := vsched.Explore(in.Bound, 0, body, func(*vsched.Ctx) bool { return !r.Stop() })
	r.Step(int(st.Points) + 1)
	r.Count("map_order_executions", st.Executions)
	if r.WantSample() && len(in.Series) == 4 && in.Range {
		r.Sample(map[string]any{"input": in, "query": expr.Text(), "expected": exp})
	}
}

// c11Classify: no finding classes are listed for C11 (defects found on the pinned tree were repaired).
func c11Classify(c11Input, engResult, []mockq.Rec, []int64) string { return "" }

func c11Run(r *vkit.Run) {
	bound := 1
	if r.Thorough() {
		bound = 2
	}
	idx := 0
	for _, sub := range subsets(len(c11Series), 4) {
		if len(sub) == 0 {
			continue
		}
		for _, unwrap := range []bool{false, true} {
			idx++
			if !r.Mine(idx) {
				continue
			}
			if r.Stop() {
				break
			}
			for _, t := range c11Tmpl {
				for _, rg := range []bool{false, true} {
					if rg && t.instantOnly {
						continue
					}
					c11Check(r, c11Input{Series: sub, Unwrap: unwrap, Query: t.name, Range: rg, Bound: bound}, nil)
					if rg && len(sub) >= 2 {
						c11Check(r, c11Input{Series: sub, Unwrap: unwrap, Query: t.name, Range: true, Bound: 0, Stagger: true}, nil)
					}
					if unwrap && len(sub) >= 2 && !strings.Contains(t.name, "topk") && !strings.Contains(t.name, "sort") && !strings.Contains(t.name, ")(") {
						for _, ro := range []string{"max_over_time", "avg_over_time", "first_over_time"} {
							c11Check(r, c11Input{Series: sub, Unwrap: true, Query: t.name, Range: rg, Bound: 0, RangeOp: ro}, nil)
						}
					}
					if !rg && !strings.Contains(t.name, "(") || strings.HasPrefix(t.name, "topk(2)") {
						c11Check(r, c11Input{Series: sub, Unwrap: unwrap, Query: t.name, Range: rg, Bound: 0, Typed: true}, nil)
					}
					if unwrap {
						// the range aggregation itself carries a grouping clause the outer ones must respect
						for _, inner := range []string{"by(a)", "by(a,b)", "without(a)", "without(v,c)", "by()", "without()"} {
							c11Check(r, c11Input{Series: sub, Unwrap: true, Query: t.name, Range: rg, Bound: 0, Inner: inner}, nil)
						}
					}
				}
			}
			if len(sub) >= 2 {
				r.NonTrivial()
			}
			r.State(vkit.J(sub) + strconv.FormatBool(unwrap))
		}
	}
	// special floats: NaN and the infinities through sum / avg / count (and min / max for the infinities)
	for _, sub := range subsets(len(c11Series), 4) {
		if len(sub) < 2 {
			continue
		}
		idx++
		if !r.Mine(idx) || r.Stop() {
			continue
		}
		for _, sp := range []string{"nan-first", "nan-last", "inf-first", "inf-mid", "inf-both", "neg-inf", "large-close", "large-mixed", "mean-hit", "mean-hit2"} {
			for _, t := range c11Tmpl {
				op, _, _ := strings.Cut(t.name, " ")
				switch op {
				case "sum", "avg", "count":
					if sp == "large-mixed" && op != "count" {
						continue // the sum of 1e15, 1, -1e15, 2 depends on the order of addition
					}
				case "min", "max":
					if strings.HasPrefix(sp, "nan") {
						continue
					}
				case "stddev", "stdvar":
					if sp != "large-close" && !strings.HasPrefix(sp, "mean-hit") {
						continue
					}
				default:
					continue
				}
				if strings.Contains(t.name, "(") && !strings.Contains(t.name, " by(") && !strings.Contains(t.name, " without(") || strings.Contains(t.name, ")(") {
					continue // nestings (where a NaN ranks inside topk / bottomk is not stated)
				}
				c11Check(r, c11Input{Series: sub, Unwrap: true, Query: t.name, Range: false, Bound: bound, Special: sp}, nil)
			}
		}
		r.NonTrivial()
	}
	// vectors larger than any small-slice special case of the sorting / heap code
	for _, big := range []int{13, 20, 33} {
		for _, q := range []string{"sort", "sort_desc", "topk(5)", "bottomk(5) by(a)", "topk(2) by(a)", "sort(sum by(a))", "sum by(a)", "max", "count by(a)", "topk(1, sum by(a))"} {
			idx++
			if !r.Mine(idx) || r.Stop() {
				continue
			}
			found := false
			for _, t := range c11Tmpl {
				if t.name == q {
					found = true
				}
			}
			if !found {
				r.HarnessError("unknown template %q", q)
			}
			c11Check(r, c11Input{Big: big, Query: q, Bound: 0}, nil)
			r.NonTrivial()
		}
	}
	// which series carries which value: every multiplier coprime to the size, under the larger k
	gcd := func(a, b int) int {
		for b != 0 {
			a, b = b, a%b
		}
		return a
	}
	for _, big := range []int{13, 20, 33} {
		for m := 1; m < big; m++ {
			if gcd(m, big) != 1 {
				continue
			}
			idx++
			if !r.Mine(idx) || r.Stop() {
				continue
			}
			for _, q := range []string{"topk(6)", "bottomk(6)", "topk(9)", "bottomk(9) by(a)", "topk(12)", "bottomk(12)", "topk(5)", "sort"} {
				c11Check(r, c11Input{Big: big, Query: q, Bound: 0, Mult: m}, nil)
			}
		}
	}
	r.Note("bounds", fmt.Sprintf("input vectors: all non-empty subsets (size <=4) of 6 label sets over a in {1,2}, b in {x,y}, optional c, with pairwise distinct values (counts 1,2,3,5 or unwrapped -2.5,0.5,7,-1), plus vectors of 13, 20 and 33 series for sort/topk/bottomk (k up to 12; every assignment of the values to the series by a multiplier coprime to the size), vectors that grow over the steps of a range query, labels that are JSON numbers / booleans, plus 6 value sets holding NaN / +Inf / -Inf for sum, avg, count (min, max for the infinities) and large close values for stddev / stdvar; %d query templates (7 operators x 9 groupings, topk/bottomk k in {1,2,5,6,9,12} x up to 5 groupings, sort/sort_desc, 20 nestings up to depth 3); instant and 3-step range; map-order deviation bound %d", len(c11Tmpl), bound))
}

func c11Replay(r *vkit.Run, v vkit.Violation) *vkit.Violation {
	var in c11Input
	if err := vkit.DecodeInput(v, &in); err != nil {
		r.HarnessError("bad input: %v", err)
	}
	ch := v.Choices
	if ch == nil {
		ch = []int{}
	}
	return vkit.ReplayOne(r, func() { c11Check(r, in, ch) })
}
