//go:build verif

package main

import (
	"fmt"
	"strconv"
	"time"

	"github.com/tdakkota/docker-logql/internal/zzverif/mockq"
	"github.com/tdakkota/docker-logql/internal/zzverif/refmodel"
	"github.com/tdakkota/docker-logql/internal/zzverif/vkit"
	"github.com/tdakkota/docker-logql/internal/zzverif/vsched"
)

type c12Input struct {
	L     []int   `json:"l"` // values of label a present on the left side
	R     []int   `json:"r"`
	Op    string  `json:"op"`
	Kind  string  `json:"kind"` // "vs" vector op scalar, "sv" scalar op vector, "vv" vector op vector
	S     float64 `json:"scalar,omitempty"`
	LVar  int     `json:"lvar"` // 0: L, 1: L - 2
	RVar  int     `json:"rvar"` // 0: R, 1: R * 0.5, 2: R - 1
	Range bool    `json:"range"`
	// Bound > 0: the evaluation is repeated under every hash-map iteration order with at most Bound rotated
	// iterations (the order in which the series of a step arrive on either side is map iteration order)
	Bound int `json:"bound,omitempty"`
	// Bool: the comparison carries the `bool` modifier.
	Bool bool `json:"bool,omitempty"`
	// Parens: redundant pairs of parentheses around each operand of the outermost operation.
	Parens int `json:"parens,omitempty"`
	// Grid (with Range): "" = four steps of 5 s; "long" = ten steps of 5 s, the last ones long after the last record
	// has left every window; "fine" = eight steps of 1 s (consecutive steps whose windows hold the same records)
	Grid string `json:"grid,omitempty"`
}

// sample seconds per (side, a): chosen so that the three steps see different counts (including none)
var c12Times = map[string][]int{
	// over the steps 5,10,15,20 s (window 10 s) series appear, persist and *disappear* on both sides
	"L1": {0, 1}, "L2": {0, 12, 13, 14}, "L3": {9, 13},
	"R1": {1, 14}, "R2": {2}, "R3": {8, 9, 10},
}

// c12Chains: constant pairs for which (x op a) op b and x op (a op b) differ by far more than any tolerance
// (absorption, overflow of the intermediate result).
var c12Chains = []struct{ a, b float64 }{{1e16, -1e16}, {1e308, 1e-308}, {-1e16, 1e16}, {3, 4}}

func c12Build(in c12Input) ([]mockq.Rec, refmodel.Expr) {
	var data []mockq.Rec
	add := func(side string, as []int) {
		for _, a := range as {
			for _, s := range c12Times[side+strconv.Itoa(a)] {
				data = append(data, mockq.Rec{TS: (c09Base + int64(s)) * sec, Line: "xy", Labels: []mockq.KV{{K: "side", V: side}, {K: "a", V: strconv.Itoa(a)}, {K: "b", V: "k" + strconv.Itoa(a%2)}}})
			}
		}
	}
	add("L", in.L)
	add("R", in.R)
	vec := func(side string) refmodel.Expr {
		return &refmodel.VecAgg{Op: "sum", Grouping: &refmodel.Grouping{Labels: []string{"a"}},
			X: &refmodel.RangeAgg{Op: "count_over_time", Sel: []refmodel.Matcher{{Label: "side", Op: "=", Value: side}}, RangeNS: 10 * sec}}
	}
	l := vec("L")
	if in.LVar == 1 {
		l = &refmodel.Bin{Op: "-", L: l, R: &refmodel.Lit{V: 2}}
	}
	if in.LVar == 2 {
		// a 2 s range on the left: whole steps at which the left side has no series at all, before and between steps
		// at which it has some (the two sides are paired by evaluation time, not by position)
		l = &refmodel.VecAgg{Op: "sum", Grouping: &refmodel.Grouping{Labels: []string{"a"}},
			X: &refmodel.RangeAgg{Op: "count_over_time", Sel: []refmodel.Matcher{{Label: "side", Op: "=", Value: "L"}}, RangeNS: 2 * sec}}
	}
	r := vec("R")
	switch in.RVar {
	case 1:
		r = &refmodel.Bin{Op: "*", L: r, R: &refmodel.Lit{V: 0.5}}
	case 2:
		r = &refmodel.Bin{Op: "-", L: r, R: &refmodel.Lit{V: 1}}
	}
	total := func(side string) refmodel.Expr {
		return &refmodel.VecAgg{Op: "sum", X: &refmodel.RangeAgg{Op: "count_over_time", Sel: []refmodel.Matcher{{Label: "side", Op: "=", Value: side}}, RangeNS: 10 * sec}}
	}
	switch in.Kind {
	case "nv": // one series with the empty label set on each side, produced in two different ways
		return data, &refmodel.Bin{Op: in.Op, L: total("L"), R: &refmodel.Vec{V: in.S}}
	case "vn":
		return data, &refmodel.Bin{Op: in.Op, L: &refmodel.Vec{V: in.S}, R: total("R")}
	case "nan": // x/0 is NaN: comparisons with NaN never hold
		return data, &refmodel.Bin{Op: in.Op, L: &refmodel.Bin{Op: "/", L: l, R: &refmodel.Lit{V: 0}}, R: &refmodel.Lit{V: in.S}}
	case "vv2": // two grouping labels, listed in another order on each side: the same label sets all the same
		mk := func(side string, labels ...string) refmodel.Expr {
			return &refmodel.VecAgg{Op: "sum", Grouping: &refmodel.Grouping{Labels: labels},
				X: &refmodel.RangeAgg{Op: "count_over_time", Sel: []refmodel.Matcher{{Label: "side", Op: "=", Value: side}}, RangeNS: 10 * sec}}
		}
		return data, &refmodel.Bin{Op: in.Op, L: mk("L", "a", "b"), R: mk("R", "b", "a")}
	case "wn", "nw": // every label removed by without(): the empty label set, the same one vector(n) and sum() carry
		wall := &refmodel.VecAgg{Op: "sum", Grouping: &refmodel.Grouping{Without: true, Labels: []string{"side", "a", "b"}},
			X: &refmodel.RangeAgg{Op: "count_over_time", Sel: []refmodel.Matcher{{Label: "side", Op: "=", Value: "L"}}, RangeNS: 10 * sec}}
		var other refmodel.Expr = &refmodel.Vec{V: in.S}
		if in.S == 0 {
			other = total("R")
		}
		if in.Kind == "wn" {
			return data, &refmodel.Bin{Op: in.Op, L: wall, R: other}
		}
		return data, &refmodel.Bin{Op: in.Op, L: other, R: wall}
	case "lab-v": // labelled series against vector(n): no label set is on both sides (unless the left side is empty too)
		return data, &refmodel.Bin{Op: in.Op, L: l, R: &refmodel.Vec{V: in.S}}
	case "v-lab":
		return data, &refmodel.Bin{Op: in.Op, L: &refmodel.Vec{V: in.S}, R: l}
	case "vl": // vector(n) against a literal, on every step of a range query
		return data, &refmodel.Bin{Op: in.Op, L: &refmodel.Vec{V: in.S}, R: &refmodel.Lit{V: 2}, Bool: in.Bool}
	case "lv":
		return data, &refmodel.Bin{Op: in.Op, L: &refmodel.Lit{V: 2}, R: &refmodel.Vec{V: in.S}, Bool: in.Bool}
	case "emptylab": // a label present with an empty value (on the series with a = 2): one side groups by naming it, the other by not removing it
		for i := range data {
			for _, kv := range data[i].Labels {
				if kv.K == "a" && kv.V == "2" {
					data[i].Labels = append(append([]mockq.KV(nil), data[i].Labels...), mockq.KV{K: "e", V: ""})
				}
			}
		}
		mk := func(side string, gr *refmodel.Grouping) refmodel.Expr {
			return &refmodel.VecAgg{Op: "sum", Grouping: gr, X: &refmodel.RangeAgg{Op: "count_over_time", Sel: []refmodel.Matcher{{Label: "side", Op: "=", Value: side}}, RangeNS: 10 * sec}}
		}
		by := &refmodel.Grouping{Labels: []string{"a", "e"}}
		wo := &refmodel.Grouping{Without: true, Labels: []string{"side", "b"}}
		if int(in.S)%2 == 0 {
			return data, &refmodel.Bin{Op: in.Op, L: mk("L", by), R: mk("R", wo)}
		}
		return data, &refmodel.Bin{Op: in.Op, L: mk("L", wo), R: mk("R", by)}
	case "cb": // the same selection and range under two different range functions (lines counted, bytes added up)
		mk := func(op string) refmodel.Expr {
			return &refmodel.VecAgg{Op: "sum", Grouping: &refmodel.Grouping{Labels: []string{"a"}},
				X: &refmodel.RangeAgg{Op: op, Sel: []refmodel.Matcher{{Label: "side", Op: "=", Value: "L"}}, RangeNS: 10 * sec}}
		}
		pairs := [][2]string{{"count_over_time", "bytes_over_time"}, {"bytes_over_time", "count_over_time"}, {"rate", "bytes_rate"}, {"count_over_time", "rate"}}
		pr := pairs[int(in.S)%len(pairs)]
		return data, &refmodel.Bin{Op: in.Op, L: mk(pr[0]), R: mk(pr[1])}
	case "rs": // a literal applied to a range aggregation directly, no vector aggregation in between
		return data, &refmodel.Bin{Op: in.Op, L: &refmodel.RangeAgg{Op: "count_over_time", Sel: []refmodel.Matcher{{Label: "side", Op: "=", Value: "L"}}, RangeNS: 10 * sec}, R: &refmodel.Lit{V: in.S}, Bool: in.Bool}
	case "sr":
		return data, &refmodel.Bin{Op: in.Op, L: &refmodel.Lit{V: in.S}, R: &refmodel.RangeAgg{Op: "count_over_time", Sel: []refmodel.Matcher{{Label: "side", Op: "=", Value: "L"}}, RangeNS: 10 * sec}, Bool: in.Bool}
	case "setset": // both operands are set operations themselves (each may come out empty, or as one of its own operands)
		inner := [][2]string{{"or", "or"}, {"or", "unless"}, {"unless", "or"}, {"and", "or"}, {"or", "and"}}[int(in.S)%5]
		lo := &refmodel.Bin{Op: inner[0], L: l, R: &refmodel.Vec{V: 0}}
		ro := &refmodel.Bin{Op: inner[1], L: r, R: &refmodel.Vec{V: 7}}
		if int(in.S) >= 5 {
			lo = &refmodel.Bin{Op: inner[0], L: l, R: r}
			ro = &refmodel.Bin{Op: inner[1], L: r, R: l}
		}
		return data, &refmodel.Bin{Op: in.Op, L: lo, R: ro}
	case "near": // operands that differ by less than any sensible tolerance, but differ: comparisons are exact
		pairs := [][2]refmodel.Expr{
			{&refmodel.Bin{Op: "+", L: &refmodel.Vec{V: 0.1}, R: &refmodel.Vec{V: 0.2}}, &refmodel.Vec{V: 0.3}},
			{&refmodel.Vec{V: 1e-10}, &refmodel.Vec{V: 0}},
			{&refmodel.Vec{V: 1}, &refmodel.Vec{V: 1.0000000001}},
			{&refmodel.Vec{V: 1e-10}, &refmodel.Lit{V: 0}},
			{&refmodel.Lit{V: 0.3}, &refmodel.Bin{Op: "+", L: &refmodel.Vec{V: 0.1}, R: &refmodel.Vec{V: 0.2}}},
			{&refmodel.Vec{V: 0.3}, &refmodel.Vec{V: 0.3}},
		}
		pr := pairs[int(in.S)%len(pairs)]
		return data, &refmodel.Bin{Op: in.Op, L: pr[0], R: pr[1]}
	case "chain": // two literal operations in a row: evaluated one after the other, as written (float arithmetic does not re-associate)
		c := c12Chains[int(in.S)%len(c12Chains)]
		var x refmodel.Expr = l
		if in.RVar == 1 {
			x = &refmodel.Vec{V: 1}
		}
		a, b := &refmodel.Lit{V: c.a}, &refmodel.Lit{V: c.b}
		switch int(in.S) / len(c12Chains) {
		case 0:
			return data, &refmodel.Bin{Op: in.Op, L: &refmodel.Bin{Op: in.Op, L: x, R: a}, R: b}
		case 1:
			return data, &refmodel.Bin{Op: in.Op, L: b, R: &refmodel.Bin{Op: in.Op, L: a, R: x}}
		case 2:
			return data, &refmodel.Bin{Op: in.Op, L: &refmodel.Bin{Op: in.Op, L: a, R: x}, R: b}
		}
		return data, &refmodel.Bin{Op: in.Op, L: b, R: &refmodel.Bin{Op: in.Op, L: x, R: a}}
	case "vs":
		return data, &refmodel.Bin{Op: in.Op, L: l, R: &refmodel.Lit{V: in.S}, Bool: in.Bool, Parens: in.Parens}
	case "sv":
		return data, &refmodel.Bin{Op: in.Op, L: &refmodel.Lit{V: in.S}, R: l, Bool: in.Bool, Parens: in.Parens}
	}
	return data, &refmodel.Bin{Op: in.Op, L: l, R: r, Bool: in.Bool, Parens: in.Parens}
}

func c12Check(r *vkit.Run, in c12Input) bool {
	r.Begin("C12", in)
	data, expr := c12Build(in)
	start := (c09Base + 5) * sec
	end, step := start, int64(0)
	if in.Range {
		end, step = start+15*sec, 5*sec
		switch in.Grid {
		case "long":
			end = start + 45*sec
		case "fine":
			end, step = start+7*sec, sec
		}
	}
	times := gridTimes(start, end, step)
	res := evalEngine(mockq.New(data), expr.Text(), start, end, time.Duration(step))
	r.Eval()
	r.Step(len(times))
	var why string
	nonEmpty := false
	for _, cv := range []refmodel.Convention{{FalseIsZero: true}, {FalseIsZero: false}} {
		exp, _, _, _ := expectGrid(expr, data, times, cv)
		if len(exp) > 0 {
			nonEmpty = true
		}
		why = compare(res, exp, nil)
		if why == "" {
			return nonEmpty
		}
	}
	exp, _, _, _ := expectGrid(expr, data, times, refmodel.Convention{FalseIsZero: true})
	r.Fail("C12", in, nil, map[string]any{"query": expr.Text(), "result": res.String()}, exp,
		fmt.Sprintf("%s with left a=%v right a=%v: %s", expr.Text(), in.L, in.R, why), "")
	return nonEmpty
}

// c12CheckBoolPair evaluates a comparison without and with the `bool` modifier (and without again: the answer
// must not depend on which form this process built first). Each result must be the reference result under one of
// the two conventions; and where the conventions differ (some series fails the comparison), the modifier must
// select the other one: a comparison filters, `bool` turns it into 0/1 (or the reverse, as this engine has it),
// but the two forms are never the same thing.
func c12CheckBoolPair(r *vkit.Run, in c12Input) bool {
	r.Begin("C12/bool", in)
	start := (c09Base + 5) * sec
	end, step := start, int64(0)
	if in.Range {
		end, step = start+15*sec, 5*sec
		switch in.Grid {
		case "long":
			end = start + 45*sec
		case "fine":
			end, step = start+7*sec, sec
		}
	}
	times := gridTimes(start, end, step)
	plain, withBool := in, in
	plain.Bool, withBool.Bool = false, true
	data, ePlain := c12Build(plain)
	_, eBool := c12Build(withBool)
	expZ, _, _, _ := expectGrid(ePlain, data, times, refmodel.Convention{FalseIsZero: true})
	expD, _, _, _ := expectGrid(ePlain, data, times, refmodel.Convention{FalseIsZero: false})
	var res [3]engResult
	for k, e := range []refmodel.Expr{ePlain, eBool, ePlain} {
		res[k] = evalEngine(mockq.New(data), e.Text(), start, end, time.Duration(step))
		r.Eval()
	}
	r.Step(3 * len(times))
	fail := func(why string) {
		r.Fail("C12/bool", in, nil, map[string]any{"plain": res[0].String(), "bool": res[1].String(), "plain_again": res[2].String(), "queries": []string{ePlain.Text(), eBool.Text()}},
			map[string]any{"false_is_0": expZ, "false_is_dropped": expD}, ePlain.Text()+" / "+eBool.Text()+": "+why, "")
	}
	conv := func(x engResult) string {
		z, d := compare(x, expZ, nil) == "", compare(x, expD, nil) == ""
		switch {
		case z && d:
			return "both"
		case z:
			return "zero"
		case d:
			return "drop"
		}
		return ""
	}
	c0, c1, c2 := conv(res[0]), conv(res[1]), conv(res[2])
	switch {
	case c0 == "" || c1 == "" || c2 == "":
		fail("a result is the reference result under neither convention")
	case res[0].String() != res[2].String():
		fail("the plain form gives another result after the bool form was evaluated in the same process")
	case c0 != "both" && c0 == c1:
		fail("the bool modifier makes no difference although some series fails the comparison")
	}
	return len(expZ) > 0
}

// c12CheckOrders evaluates one vector-vector case under every map iteration order within in.Bound deviations.
func c12CheckOrders(r *vkit.Run, in c12Input, replay []int) {
	data, expr := c12Build(in)
	start := (c09Base + 5) * sec
	end, step := start, int64(0)
	if in.Range {
		end, step = start+15*sec, 5*sec
		switch in.Grid {
		case "long":
			end = start + 45*sec
		case "fine":
			end, step = start+7*sec, sec
		}
	}
	times := gridTimes(start, end, step)
	expZ, _, _, _ := expectGrid(expr, data, times, refmodel.Convention{FalseIsZero: true})
	expD, _, _, _ := expectGrid(expr, data, times, refmodel.Convention{FalseIsZero: false})
	body := func(c *vsched.Ctx) {
		r.BeginChoices("C12/map-order", in, c.Prefix())
		res := evalEngineCtx(c, mockq.New(data), expr.Text(), start, end, time.Duration(step))
		r.Eval()
		why := compare(res, expZ, nil)
		if why != "" {
			if compare(res, expD, nil) == "" {
				why = ""
			}
		}
		if why != "" {
			r.Fail("C12/map-order", in, c.TrimmedChoices(), map[string]any{"query": expr.Text(), "result": res.String()}, expZ,
				fmt.Sprintf("%s with left a=%v right a=%v under a rotated map iteration order: %s", expr.Text(), in.L, in.R, why), "")
		}
		if c.Diverged != "" {
			r.HarnessError("replay divergence: %s", c.Diverged)
		}
	}
	if replay != nil {
		body(vsched.NewCtx(replay))
		return
	}
	st := vsched.Explore(in.Bound, 0, body, func(*vsched.Ctx) bool { return !r.Stop() })
	r.Step(int(st.Points) + int(st.Executions))
	r.Count("map_order_executions", st.Executions)
	r.Count("executions_with_rotated_iteration", st.Deviating)
	if st.Capped {
		r.Cap("map-order exploration stopped early")
	}
}

func c12Run(r *vkit.Run) {
	arith := []string{"+", "-", "*", "/", "%", "^", "==", "!=", ">", ">=", "<", "<="}
	all := append(append([]string(nil), arith...), "and", "or", "unless")
	sets := subsets(3, 3)
	idx := 0
	for _, ls := range sets {
		for _, rs := range sets {
			idx++
			if !r.Mine(idx) {
				continue
			}
			if r.Stop() {
				break
			}
			l := make([]int, len(ls))
			for i, v := range ls {
				l[i] = v + 1
			}
			rr := make([]int, len(rs))
			for i, v := range rs {
				rr[i] = v + 1
			}
			nontrivial := false
			for _, rg := range []bool{false, true} {
				// the bool modifier: each form alone under the usual tolerance, and as a pair (see c12CheckBoolPair)
				for _, op := range []string{"==", "!=", ">", ">=", "<", "<="} {
					for _, s := range []float64{2, 0.5} {
						for _, kind := range []string{"vs", "sv", "vv", "vl", "lv"} {
							in := c12Input{L: l, R: rr, Op: op, Kind: kind, S: s, RVar: 2, Range: rg}
							if c12CheckBoolPair(r, in) {
								nontrivial = true
							}
						}
					}
				}
				for _, op := range arith {
					// (1e19: whole results beyond the 64-bit integers; 1e-320: a subnormal scalar, whose reciprocal is not a number one can multiply by)
					for _, s := range []float64{0, 2, -3, 0.5, 0.1, 0.3, 1e19, 1e-320} {
						for _, kind := range []string{"vs", "sv"} {
							for lv := 0; lv < 2; lv++ {
								if c12Check(r, c12Input{L: l, R: rr, Op: op, Kind: kind, S: s, LVar: lv, Range: rg}) {
									nontrivial = true
								}
							}
						}
					}
				}
				for _, op := range all {
					for _, s := range []float64{0, 2} {
						for _, kind := range []string{"nv", "vn"} {
							if c12Check(r, c12Input{L: l, R: rr, Op: op, Kind: kind, S: s, Range: rg}) {
								nontrivial = true
							}
						}
					}
				}
				for _, op := range []string{"==", "!=", ">", ">=", "<", "<="} {
					for _, s := range []float64{0, 1} {
						if c12Check(r, c12Input{L: l, R: rr, Op: op, Kind: "nan", S: s, Range: rg}) {
							nontrivial = true
						}
					}
					for k := 0; k < 6; k++ {
						c12Check(r, c12Input{L: l, R: rr, Op: op, Kind: "near", S: float64(k), Range: rg})
					}
				}
				for _, op := range arith {
					for _, s := range []float64{2, 0.5, 7, 9223372036854775808, 1e19} { // (vector() takes no sign)
						c12Check(r, c12Input{L: l, R: rr, Op: op, Kind: "vl", S: s, Range: rg})
						c12Check(r, c12Input{L: l, R: rr, Op: op, Kind: "lv", S: s, Range: rg})
					}
				}
				for _, op := range []string{"+", "-", "*"} {
					for k := 0; k < 4*len(c12Chains); k++ {
						for rv := 0; rv < 2; rv++ {
							c12Check(r, c12Input{L: l, R: rr, Op: op, Kind: "chain", S: float64(k), RVar: rv, Range: rg})
						}
					}
				}
				for _, op := range all {
					for _, s := range []float64{1, 0} {
						c12Check(r, c12Input{L: l, R: rr, Op: op, Kind: "lab-v", S: s, Range: rg})
						c12Check(r, c12Input{L: l, R: rr, Op: op, Kind: "v-lab", S: s, Range: rg})
					}
					if rg {
						c12Check(r, c12Input{L: l, R: rr, Op: op, Kind: "vv", LVar: 2, RVar: 0, Range: true})
					}
					c12Check(r, c12Input{L: l, R: rr, Op: op, Kind: "vv2", Range: rg})
					for _, s := range []float64{0, 3} {
						c12Check(r, c12Input{L: l, R: rr, Op: op, Kind: "wn", S: s, Range: rg})
						c12Check(r, c12Input{L: l, R: rr, Op: op, Kind: "nw", S: s, Range: rg})
					}
				}
				for _, op := range all {
					for k := 0; k < 10; k++ {
						c12Check(r, c12Input{L: l, R: rr, Op: op, Kind: "setset", S: float64(k), Range: rg})
					}
				}
				for _, op := range all {
					for k := 0; k < 4; k++ {
						c12Check(r, c12Input{L: l, R: rr, Op: op, Kind: "cb", S: float64(k), Range: rg})
					}
				}
				if rg {
					// grids that go on long after the data has ended, and grids finer than the windows
					for _, grid := range []string{"long", "fine"} {
						for _, op := range all {
							for _, kind := range []string{"lab-v", "v-lab", "nv", "vn", "vv"} {
								c12Check(r, c12Input{L: l, R: rr, Op: op, Kind: kind, S: 1, RVar: 2, Range: true, Grid: grid})
							}
						}
						for _, op := range arith {
							for _, s := range []float64{2, 0.5} {
								c12Check(r, c12Input{L: l, R: rr, Op: op, Kind: "rs", S: s, Range: true, Grid: grid})
								c12Check(r, c12Input{L: l, R: rr, Op: op, Kind: "sr", S: s, Range: true, Grid: grid})
								c12Check(r, c12Input{L: l, R: rr, Op: op, Kind: "vs", S: s, Range: true, Grid: grid})
							}
						}
					}
				}
				for _, op := range arith {
					c12Check(r, c12Input{L: l, R: rr, Op: op, Kind: "rs", S: 2, Range: rg})
					c12Check(r, c12Input{L: l, R: rr, Op: op, Kind: "sr", S: 2, Range: rg})
				}
				for _, op := range all {
					for k := 0; k < 2; k++ {
						c12Check(r, c12Input{L: l, R: rr, Op: op, Kind: "emptylab", S: float64(k), Range: rg})
					}
				}
				// operands in one, two and three redundant pairs of parentheses
				for _, op := range all {
					for pn := 1; pn <= 3; pn++ {
						c12Check(r, c12Input{L: l, R: rr, Op: op, Kind: "vv", LVar: pn % 2, RVar: pn % 3, Range: rg, Parens: pn})
						if op != "and" && op != "or" && op != "unless" {
							c12Check(r, c12Input{L: l, R: rr, Op: op, Kind: "vs", S: 2, Range: rg, Parens: pn})
							c12Check(r, c12Input{L: l, R: rr, Op: op, Kind: "sv", S: 2, Range: rg, Parens: pn})
						}
					}
				}
				for _, op := range all {
					for lv := 0; lv < 2; lv++ {
						for rv := 0; rv < 3; rv++ {
							in := c12Input{L: l, R: rr, Op: op, Kind: "vv", LVar: lv, RVar: rv, Range: rg}
							if c12Check(r, in) {
								nontrivial = true
							}
							if r.WantSample() && rg && len(l) == 2 && len(rr) == 2 && op == "/" && rv == 2 {
								_, e := c12Build(in)
								r.Sample(map[string]any{"input": in, "query": e.Text()})
							}
						}
					}
				}
			}
			// the order in which series arrive within a step is hash-map iteration order: every order within
			// the deviation bound, for the pairs in which both sides carry at least two series
			if len(l) >= 2 && len(rr) >= 2 {
				bound := 1
				if r.Thorough() {
					bound = 2
				}
				for _, rg := range []bool{false, true} {
					for _, op := range []string{"-", "/", ">", "and", "or", "unless"} {
						c12CheckOrders(r, c12Input{L: l, R: rr, Op: op, Kind: "vv", RVar: 2, Range: rg, Bound: bound}, nil)
					}
				}
			}
			if nontrivial {
				r.NonTrivial()
			}
			r.State(fmt.Sprint(l, rr))
		}
	}
	r.Note("bounds", "left/right vectors = sum by (a) (count_over_time({side=..}[10s])) for every pair of subsets of a in {1,2,3} (equal, overlapping, disjoint, empty), optionally shifted/scaled to reach 0, negatives and fractions; vector-scalar and scalar-vector for 12 operators x scalars {0,2,-3,0.5,0.1,0.3,1e19,1e-320}; comparisons with and without the bool modifier; vector(n) against a literal on every step; labelled series against vector(n); two grouping labels listed in different orders on the two sides; the empty label set produced by without(all labels); two literal operations in a row (+, -, * with constants that absorb or overflow, in the four nestings); a left side that is empty at whole steps; comparisons of operands that differ by 1e-10 or by one ulp; vector-vector for 15 operators x 6 operand variants; instant and 4-step range in which series appear, persist and disappear on either side; for the 16 pairs with >= 2 series on both sides, 6 operators x instant/range under every hash-map iteration order within 1 (thorough: 2) rotated iterations")
}

func c12Replay(r *vkit.Run, v vkit.Violation) *vkit.Violation {
	var in c12Input
	if err := vkit.DecodeInput(v, &in); err != nil {
		r.HarnessError("bad input: %v", err)
	}
	if v.Check == "C12/bool" {
		return vkit.ReplayOne(r, func() { c12CheckBoolPair(r, in) })
	}
	if v.Check == "C12/map-order" {
		ch := v.Choices
		if ch == nil {
			ch = []int{}
		}
		return vkit.ReplayOne(r, func() { c12CheckOrders(r, in, ch) })
	}
	return vkit.ReplayOne(r, func() { c12Check(r, in) })
}
