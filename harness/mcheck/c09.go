//go:build verif

package main

import (
	"fmt"
	"strconv"
	"strings"
	"time"

	"github.com/tdakkota/docker-logql/internal/zzverif/mockq"
	"github.com/tdakkota/docker-logql/internal/zzverif/refmodel"
	"github.com/tdakkota/docker-logql/internal/zzverif/vkit"
)

const c09Base = int64(1000) // seconds; keeps every window in positive time

type c09Input struct {
	A          []int  `json:"a"`             // sample seconds of series a (relative to base)
	Dup        bool   `json:"dup,omitempty"` // first timestamp carries two samples
	B          bool   `json:"b,omitempty"`   // second series with samples at 2 and 5
	Fn         string `json:"fn"`            // query variant
	RangeS     int    `json:"range_s"`
	OffsetS    int    `json:"offset_s"`
	StartS     int    `json:"start_s"`
	SpanS      int    `json:"span_s"`
	StepS      int    `json:"step_s"` // 0 = instant
	TimeFilter bool   `json:"time_filter"`
	// UnitMS is the time unit of all the numbers above (0 = 1000 ms): 100 ms exercises fractional-second
	// grids, 15 s ranges beyond the engine's instant-query lookback.
	UnitMS int `json:"unit_ms,omitempty"`
	// Limit is the entry limit of the request (0 = none given): it limits log results, never the samples of
	// a metric query.
	Limit int `json:"limit,omitempty"`
	// Many > 0: instead of A, series a carries Many samples spread evenly over seconds 0..8 (values 1..Many in a
	// scrambled order): windows holding more samples than any small-slice threshold of sorting / buffering code.
	Many int `json:"many,omitempty"`
	// EmptyB: the lines of series b are empty (a sample all the same: it counts, and weighs 0 bytes)
	EmptyB bool `json:"empty_b,omitempty"`
}

func (in c09Input) unit() int64 {
	if in.UnitMS == 0 {
		return sec
	}
	return int64(in.UnitMS) * 1e6
}

type c09Fn struct {
	name   string
	op     string
	unwrap bool
	conv   string
	group  bool    // by (s)
	none   bool    // by (): every sample in one series without labels
	param  float64 // quantile
	vals   string  // "pow2", "const", "bytes", "dur"
}

var c09Fns = []c09Fn{
	{name: "count", op: "count_over_time"},
	{name: "avg-by", op: "avg_over_time", unwrap: true, group: true, vals: "pow2"},
	{name: "last-by", op: "last_over_time", unwrap: true, group: true, vals: "pow2"},
	{name: "rate", op: "rate"},
	{name: "bytes", op: "bytes_over_time"},
	{name: "bytes_rate", op: "bytes_rate"},
	{name: "sum", op: "sum_over_time", unwrap: true, vals: "const"},
	{name: "min-by", op: "min_over_time", unwrap: true, group: true, vals: "pow2"},
	{name: "max-by", op: "max_over_time", unwrap: true, group: true, vals: "pow2"},
	{name: "first-by", op: "first_over_time", unwrap: true, group: true, vals: "pow2"},
	{name: "stddev-by", op: "stddev_over_time", unwrap: true, group: true, vals: "pow2"},
	{name: "stdvar-by", op: "stdvar_over_time", unwrap: true, group: true, vals: "pow2"},
	{name: "quantile-by", op: "quantile_over_time", unwrap: true, group: true, param: 0.5, vals: "pow2"},
	{name: "quantile1-by", op: "quantile_over_time", unwrap: true, group: true, param: 1, vals: "pow2"},
	{name: "quantile0-by", op: "quantile_over_time", unwrap: true, group: true, param: 0, vals: "pow2"},
	{name: "quantile99-by", op: "quantile_over_time", unwrap: true, group: true, param: 0.99, vals: "pow2"},
	{name: "stddev-big-by", op: "stddev_over_time", unwrap: true, group: true, vals: "big"},
	{name: "stdvar-big-by", op: "stdvar_over_time", unwrap: true, group: true, vals: "big"},
	{name: "avg-big-by", op: "avg_over_time", unwrap: true, group: true, vals: "big"},
	{name: "max-by-none", op: "max_over_time", unwrap: true, none: true, vals: "pow2"},
	{name: "avg-by-none", op: "avg_over_time", unwrap: true, none: true, vals: "pow2"},
	{name: "first-by-none", op: "first_over_time", unwrap: true, none: true, vals: "pow2"},
	{name: "max-neg-by", op: "max_over_time", unwrap: true, group: true, vals: "neg"},
	{name: "min-neg-by", op: "min_over_time", unwrap: true, group: true, vals: "neg"},
	{name: "last-neg", op: "last_over_time", unwrap: true, vals: "neg"},
	{name: "sum-huge", op: "sum_over_time", unwrap: true, vals: "huge"},
	{name: "max-huge-by", op: "max_over_time", unwrap: true, group: true, vals: "huge"},
	{name: "sum-bytes", op: "sum_over_time", unwrap: true, conv: "bytes", vals: "bytes"},
	{name: "max-duration-by", op: "max_over_time", unwrap: true, conv: "duration", group: true, vals: "dur"},
	{name: "avg-duration-seconds-by", op: "avg_over_time", unwrap: true, conv: "duration_seconds", group: true, vals: "dur"},
}

func c09FnByName(n string) c09Fn {
	for _, f := range c09Fns {
		if f.name == n {
			return f
		}
	}
	panic("unknown fn " + n)
}

func c09Data(in c09Input, fn c09Fn) []mockq.Rec {
	var recs []mockq.Rec
	add := func(series string, s int, k int) {
		labels := []mockq.KV{{K: "s", V: series}}
		if fn.unwrap {
			var v string
			switch fn.vals {
			case "pow2":
				v = strconv.Itoa((1 << uint(s)) + k)
			case "const":
				v = "3"
			case "big": // large values lying close together (a variance from sums of squares cancels)
				v = strconv.Itoa(10000000 + s + k)
			case "neg": // nothing positive: zeros and negative values
				v = []string{"0", "-1", "-0.5", "0", "-1000000", "-0"}[(s+k)%6]
			case "huge": // whole numbers of ten and more digits, around 2^32 and far beyond
				v = []string{"4294967295", "4294967296", "4294967297", "5000000000", "99999999999", "9007199254740993"}[(s+k)%6]
			case "bytes":
				v = []string{"2KB", "1KiB", "512B", "3MB"}[s%4]
			case "dur":
				// whole and fractional seconds
				v = strconv.Itoa(s+1) + "m30s" + []string{"", "250ms", "500ms", "1ms"}[s%4]
			}
			labels = append(labels, mockq.KV{K: "v", V: v})
		}
		line := "xy\u00e9\u4e16" // 4 characters, 7 bytes
		if in.EmptyB && series == "b" {
			line = ""
		}
		recs = append(recs, mockq.Rec{TS: c09Base*sec + int64(s)*in.unit(), Line: line, Labels: labels})
	}
	for k := 0; k < in.Many; k++ {
		labels := []mockq.KV{{K: "s", V: "a"}}
		if fn.unwrap {
			labels = append(labels, mockq.KV{K: "v", V: strconv.Itoa(1 + (k*7919)%in.Many)})
		}
		ts := c09Base*sec + int64(k)*8*sec/int64(in.Many) + int64(k%7)
		if in.Many%16 == 0 {
			ts -= int64(k % 7) // 16, 32, ... samples: exactly on the half / quarter seconds, so that window edges meet samples
		}
		recs = append(recs, mockq.Rec{TS: ts, Line: "xy\u00e9\u4e16", Labels: labels})
	}
	for i, s := range in.A {
		add("a", s, 0)
		if in.Dup && i == 0 {
			add("a", s, 1000)
		}
	}
	if in.B {
		add("b", 2, 0)
		add("b", 5, 0)
	}
	return recs
}

func c09Expr(in c09Input, fn c09Fn) *refmodel.RangeAgg {
	e := &refmodel.RangeAgg{Op: fn.op, RangeNS: int64(in.RangeS) * in.unit(), OffsetNS: int64(in.OffsetS) * in.unit()}
	if fn.unwrap {
		e.Unwrap, e.Conv = "v", fn.conv
	}
	if fn.group {
		e.Grouping = &refmodel.Grouping{Labels: []string{"s"}}
	}
	if fn.none {
		e.Grouping = &refmodel.Grouping{Labels: []string{}}
	}
	if fn.op == "quantile_over_time" {
		p := fn.param
		e.Param = &p
	}
	return e
}

func c09Check(r *vkit.Run, in c09Input) bool {
	r.Begin("C09", in)
	fn := c09FnByName(in.Fn)
	data := c09Data(in, fn)
	expr := c09Expr(in, fn)
	start := c09Base*sec + int64(in.StartS)*in.unit()
	end := start + int64(in.SpanS)*in.unit()
	step := int64(in.StepS) * in.unit()
	if in.StepS == 0 {
		end = start
	}
	q := mockq.New(data)
	q.TimeFilter = in.TimeFilter
	limit := -1
	if in.Limit != 0 {
		limit = in.Limit
	}
	res := evalEngineLimit(nil, q, expr.Text(), start, end, time.Duration(step), limit)
	r.Eval()
	times := gridTimes(start, end, step)
	r.Step(len(times))
	exp, _, _, _ := expectGrid(expr, data, times, refmodel.Convention{})
	if why := compare(res, exp, nil); why != "" {
		r.Fail("C09", in, nil, map[string]any{"query": expr.Text(), "result": res.String()}, exp,
			fmt.Sprintf("%s over samples a@%v (dup=%v, b=%v), grid start=%ds span=%ds step=%ds: %s", expr.Text(), in.A, in.Dup, in.B, in.StartS, in.SpanS, in.StepS, why), c09Classify(in, res, expr, data, times))
		return len(exp) > 0
	}
	if q.Opened != q.Closed {
		// not this property (C14), but worth counting
		r.Count("iterators_left_open", int64(q.Opened-q.Closed))
	}
	return len(exp) > 0
}

// c09Classify recognises the two defects found on the pinned tree, by re-evaluating the model with
// exactly that deviation: (1) results of `offset o` stamped T-o; (2) a sample exactly on the left
// window edge is dropped when it was retained from an earlier step.
func c09Classify(in c09Input, res engResult, expr *refmodel.RangeAgg, data []mockq.Rec, times []int64) string {
	if in.OffsetS != 0 {
		exp := map[string][]point{}
		for _, t := range times {
			v := refmodel.EvalAt(expr, data, t, refmodel.Convention{})
			for _, s := range v.V {
				k := s.Labels.Key()
				exp[k] = append(exp[k], point{T: (t - expr.OffsetNS) / 1e6, V: s.V})
			}
		}
		if compare(res, exp, nil) == "" {
			return "C09-offset-shifts-stamp"
		}
	}
	return ""
}

func subsets(n, maxSize int) [][]int {
	var out [][]int
	var rec func(start int, cur []int)
	rec = func(start int, cur []int) {
		out = append(out, append([]int(nil), cur...))
		if len(cur) == maxSize {
			return
		}
		for i := start; i < n; i++ {
			rec(i+1, append(cur, i))
		}
	}
	rec(0, nil)
	return out
}

func c09Run(r *vkit.Run) {
	maxSize := 3
	if r.Thorough() {
		maxSize = 4
	}
	type dset struct {
		a   []int
		dup bool
		b   bool
	}
	var dsets []dset
	for _, a := range subsets(9, maxSize) {
		dsets = append(dsets, dset{a: a})
		if len(a) >= 1 && len(a) <= 2 {
			dsets = append(dsets, dset{a: a, dup: true})
		}
		if len(a) <= 2 {
			dsets = append(dsets, dset{a: a, b: true})
		}
	}
	idx := 0
	for di, d := range dsets {
		idx++
		if !r.Mine(idx) {
			continue
		}
		if r.Stop() {
			break
		}
		nontrivial := false
		// other time units on a reduced grid: 100 ms (fractional-second grids) and 15 s (ranges beyond the lookback)
		for _, unit := range []int{100, 15000} {
			for fi, fn := range c09Fns[:3] {
				for _, rg := range []int{1, 2, 4} {
					for _, off := range []int{0, 1} {
						for _, start := range []int{0, 3, 5} {
							for _, span := range []int{0, 3, 6, 7} {
								for _, step := range []int{0, 1, 2, 3} {
									if (step == 0) != (span == 0) {
										continue
									}
									in := c09Input{A: d.a, Dup: d.dup, B: d.b, Fn: fn.name, RangeS: rg, OffsetS: off, StartS: start, SpanS: span, StepS: step, TimeFilter: true, UnitMS: unit}
									if fi > 0 && (start != 3 || off != 0) {
										continue
									}
									if c09Check(r, in) {
										nontrivial = true
									}
								}
							}
						}
					}
				}
			}
		}
		for fi, fn := range c09Fns {
			full := fi < 3
			for _, rg := range []int{1, 2, 4} {
				for _, off := range []int{0, 1, 3} {
					for start := 0; start <= 6; start++ {
						if !full && start != 0 && start != 3 {
							continue
						}
						for span := 0; span <= 8; span++ {
							if !full && span != 0 && span != 4 && span != 8 {
								continue
							}
							for _, step := range []int{0, 1, 2, 3, 5} {
								if (step == 0) != (span == 0) {
									if !(step != 0 && span == 0) {
										continue
									}
								}
								if !full && step != 0 && step != 1 && step != 3 {
									continue
								}
								for _, tf := range []bool{true, false} {
									if !full && !tf {
										continue
									}
									in := c09Input{A: d.a, Dup: d.dup, B: d.b, Fn: fn.name, RangeS: rg, OffsetS: off, StartS: start, SpanS: span, StepS: step, TimeFilter: tf}
									if c09Check(r, in) {
										nontrivial = true
									}
									if tf && off == 0 && (start == 0 || start == 3) && (fi < 3 || rg == 2) {
										for _, lim := range []int{1, 2} {
											in.Limit = lim
											if c09Check(r, in) {
												nontrivial = true
											}
										}
										in.Limit = 0
									}
									if d.b && tf && off == 0 && (fn.op == "bytes_over_time" || fn.op == "bytes_rate" || fn.op == "count_over_time") {
										in.EmptyB = true
										if c09Check(r, in) {
											nontrivial = true
										}
										in.EmptyB = false
									}
									if r.WantSample() && len(d.a) == 3 && span == 8 && step == 2 && fi == 1 {
										r.Sample(map[string]any{"input": in, "query": c09Expr(in, fn).Text()})
									}
								}
							}
						}
					}
				}
				if r.Stop() {
					break
				}
			}
		}
		if nontrivial {
			r.NonTrivial()
		}
		r.State(fmt.Sprintf("%d:%v", di, d))
		if di == 0 {
			// windows with many samples (shard of the first data set only)
			for _, many := range []int{13, 16, 32, 50, 300, 2000} {
				for _, fn := range c09Fns {
					if fn.vals != "" && fn.vals != "pow2" {
						continue
					}
					for _, rg := range []int{2, 4} {
						for _, step := range []int{0, 1, 3} {
							span := 0
							if step > 0 {
								span = 8
							}
							c09Check(r, c09Input{Many: many, Fn: fn.name, RangeS: rg, StartS: 3, SpanS: span, StepS: step, TimeFilter: true})
							// the same next to a second, sparse series that starts inside the busy one's window
							c09Check(r, c09Input{Many: many, B: true, Fn: fn.name, RangeS: rg, StartS: 3, SpanS: span, StepS: step, TimeFilter: true})
						}
					}
				}
			}
		}
	}
	c09SpellRun(r, &idx)
	r.GlobalState("spellings")
	// grids of more steps than any cap on their number one might think of: every step is answered
	for _, steps := range []int{11001, 20000} {
		idx++
		if r.Mine(idx) && !r.Stop() {
			// (samples at the very beginning and within the last steps of the grid)
			c09Check(r, c09Input{A: []int{0, 5, steps - 3, steps}, Fn: "count", RangeS: 2, StartS: 1, SpanS: steps, StepS: 1, TimeFilter: true})
			c09Check(r, c09Input{A: []int{1, 2*steps - 5}, B: true, Fn: "bytes", RangeS: 4, StartS: 0, SpanS: steps * 2, StepS: 2, TimeFilter: true})
		}
	}
	r.GlobalState("long-grids")
	c09PipeRun(r, &idx)
	r.GlobalState("pipelines")
	c09DockerRun(r, &idx)
	r.GlobalState("docker-querier")
	r.Note("bounds", fmt.Sprintf("sample sets: all subsets of {0..8}s of size <=%d (+ doubled-timestamp and second-series variants); ranges {1,2,4}s x offsets {0,1,3}s x starts 0..6 x spans 0..8 x steps {instant,1,2,3,5}s x storage time-filtering on/off for count/avg/last; a reduced grid (starts {0,3}, spans {0,4,8}, steps {instant,1,3}) for the other %d function variants; the three window-identifying functions again on grids in units of 100 ms and of 15 s; windows holding 13, 16, 32 (samples exactly on window edges), 50, 300 and 2000 samples for every function; request entry limits {none,1,2} (a metric query ignores them); unwrapped durations with fractional seconds, byte sizes in four units; ranges and offsets of 0.1 s to 9.9 s and seven minute-sized ones in every spelling (ms, fractional seconds, s+ms, fractional minutes, m+s) with samples on and next to both window edges; grids of 11001 and 20000 steps; `by ()` on max / avg / first over time; count / bytes / grouped sums over 20 pipelines (label filters on a label some records lack, line filters, parsers with line_format incl. empty and failing output, drop / keep / label_format, decolorize) x 2 ranges x 8 grids x 2 record orders; sums by container over the Docker querier (7 inventories of 1-4 containers x 3 time units x 9 grids, with a daemon that honours since/until and one that does not)", maxSize, len(c09Fns)-3))
}

func c09Replay(r *vkit.Run, v vkit.Violation) *vkit.Violation {
	switch strings.TrimSuffix(v.Check, "/termination") {
	case "C09/spelling":
		var in c09SpellInput
		if err := vkit.DecodeInput(v, &in); err != nil {
			r.HarnessError("bad input: %v", err)
		}
		return vkit.ReplayOne(r, func() { c09SpellCheck(r, in) })
	case "C09/pipeline":
		var in c09PipeInput
		if err := vkit.DecodeInput(v, &in); err != nil {
			r.HarnessError("bad input: %v", err)
		}
		return vkit.ReplayOne(r, func() { c09PipeCheck(r, in) })
	case "C09/docker":
		var in c09DockerInput
		if err := vkit.DecodeInput(v, &in); err != nil {
			r.HarnessError("bad input: %v", err)
		}
		return vkit.ReplayOne(r, func() { c09DockerCheck(r, in) })
	}
	var in c09Input
	if err := vkit.DecodeInput(v, &in); err != nil {
		r.HarnessError("bad input: %v", err)
	}
	return vkit.ReplayOne(r, func() { c09Check(r, in) })
}
