//go:build verif

package main

import (
	"fmt"
	"sort"
	"strings"
	"time"

	"github.com/tdakkota/docker-logql/internal/zzverif/mockq"
	"github.com/tdakkota/docker-logql/internal/zzverif/refmodel"
	"github.com/tdakkota/docker-logql/internal/zzverif/vkit"
	"github.com/tdakkota/docker-logql/internal/zzverif/vsched"
)

// c10Sets: label sets built to collide under naive keying (concatenation, prefixes, order, empty values).
var c10Sets = [][]mockq.KV{
	{{K: "a", V: "bc"}},
	{{K: "ab", V: "c"}},
	{{K: "a", V: "b"}, {K: "c", V: "d"}},
	{{K: "c", V: "d"}, {K: "a", V: "b"}}, // same set, other insertion order
	{{K: "a", V: "bcd"}},
	{{K: "a", V: "b"}},
	{{K: "a", V: "b"}, {K: "c", V: ""}},
	{{K: "a", V: "b"}, {K: "cd", V: ""}},
	{{K: "ab", V: "c"}, {K: "d", V: "e"}},
	{{K: "a", V: "bcd"}, {K: "e", V: ""}},
	{{K: "a", V: "b"}, {K: "c", V: "d"}, {K: "e", V: "f"}},
	{{K: "e", V: "f"}, {K: "c", V: "d"}, {K: "a", V: "b"}},
	// names that differ in letter case only are different names
	{{K: "A", V: "b"}, {K: "a", V: "c"}},
	{{K: "a", V: "b"}, {K: "A", V: "c"}},
	// one label each, other names, the same values as sets above
	{{K: "c", V: "b"}},
	{{K: "ab", V: "bc"}},
}

type c10Input struct {
	Sets []int `json:"sets"` // indexes into the alphabet, one record each (timestamps 1s apart)
	// Explicit label sets (used instead of Sets when non-empty): pairs that collide under some separator-free serialisation.
	Explicit [][]mockq.KV `json:"explicit,omitempty"`
	Shape    string       `json:"shape"`    // count, sum-count, avg-unwrap
	Grouping string       `json:"grouping"` // "", by(a), by(a,c), by(ab), without(a), without(c)
	Range    bool         `json:"range"`    // 3-step range query instead of instant
	Bound    int          `json:"bound"`    // MAPITER deviation bound
	// JSON (used instead of Sets when non-empty): indexes into c10JSONLines; the labels of the series come out of
	// `| json`, i.e. as numbers, booleans and strings rather than as plain string attributes.
	JSON []int `json:"json,omitempty"`
	// Logfmt: the JSON indexes point into c10LogfmtLines and the stage is `| logfmt` (keys are used as label names as
	// they are written: names that differ only in characters a sanitiser would map to one another stay distinct)
	Logfmt bool `json:"logfmt,omitempty"`
	// Traces (with Sets): record i carries trace id Traces[i%len] ("" = none): an id that is set is a label
	Traces []string `json:"traces,omitempty"`
	// Host: every record of the JSON / logfmt families carries the resource attribute host=node-1 (one shared map per
	// stream in the mock, as in the Docker querier)
	Host bool `json:"host,omitempty"`
	// Exprs: the JSON family uses `| json p="o", q="o", u="o.name"` (two labels for one object, one for a field of it)
	Exprs bool `json:"exprs,omitempty"`
	// Turns: the range of the aggregation is Turns milliseconds instead of 10 s (records are 1 s apart, the range
	// query has one step per second): with 500 the series take turns, one per step; from 1000 on windows overlap
	// and expire partially.
	Turns int `json:"turns_ms,omitempty"`
}

// c10JSONLines: the same label names with values of different JSON types; as label values "200" and 200 are the same.
var c10JSONLines = []string{
	`{"code":200}`, `{"code":500}`, `{"code":"200"}`, `{"code":200,"ok":true}`, `{"code":200,"ok":false}`, `{"ok":true}`, `{"ok":"true"}`, `{"code":-1}`, `{"code":0}`, `{"code":""}`,
}

var c10LogfmtLines = []string{`a.b=1`, `a_b=1`, `a.b=1 a_b=2`, `a_b=1 a.b=2`, `a-b=1`, `a.b=2`, `a_b=`, `a.b=`, `host=upstream a_b=1`, `host=node-1`}

// c10ExprLines: documents for `| json p="o", q="o", u="o.name"`; one of them is cut below the top level.
var c10ExprLines = []string{`{"o":{"name":"bob"}}`, `{"o":{"name":"bob"},"x":1}`, `{"o":{"name":"al"}}`, `{"o":{"name":"bob"`, `{"o":"flat"}`, `{"x":{"o":1}}`}

var c10Groupings = map[string]*refmodel.Grouping{
	"":             nil,
	"by(a)":        {Labels: []string{"a"}},
	"by(a,c)":      {Labels: []string{"a", "c"}},
	"by(ab)":       {Labels: []string{"ab"}},
	"without(a)":   {Without: true, Labels: []string{"a"}},
	"without(c)":   {Without: true, Labels: []string{"c"}},
	"by()":         {Labels: []string{}},
	"by(trace_id)": {Labels: []string{"trace_id"}},
	"by(host)":     {Labels: []string{"host"}},
	"without()":    {Without: true, Labels: []string{}},
}

var c10JSONGroupings = map[string]*refmodel.Grouping{
	"by(host)": {Labels: []string{"host"}}, "by(p,q,u)": {Labels: []string{"p", "q", "u"}}, "by(u)": {Labels: []string{"u"}},
	"by(code)": {Labels: []string{"code"}}, "by(code,ok)": {Labels: []string{"code", "ok"}}, "by(ok)": {Labels: []string{"ok"}},
	"without(msg)": {Without: true, Labels: []string{"msg"}}, "without(msg,ok)": {Without: true, Labels: []string{"msg", "ok"}},
}

var c10GroupingNames = []string{"", "by(a)", "by(a,c)", "by(ab)", "without(a)", "without(c)", "by()", "without()"}

func c10Build(in c10Input) ([]mockq.Rec, refmodel.Expr) {
	var data []mockq.Rec
	sets := in.Explicit
	if len(sets) == 0 {
		for _, si := range in.Sets {
			sets = append(sets, c10Sets[si])
		}
	}
	for i, li := range in.JSON {
		line := c10JSONLines[li%len(c10JSONLines)]
		if in.Logfmt {
			line = c10LogfmtLines[li]
		}
		if in.Exprs {
			line = c10ExprLines[li%len(c10ExprLines)]
		}
		var labels []mockq.KV
		if in.Host {
			labels = []mockq.KV{{K: "host", V: "node-1"}}
		}
		data = append(data, mockq.Rec{TS: (c09Base + int64(i)) * sec, Line: line, Labels: labels})
	}
	if len(in.JSON) > 0 {
		js := []refmodel.Stage{&refmodel.JSONStage{}, &refmodel.Drop{Items: []refmodel.DKItem{{Label: "msg"}}}}
		if in.Logfmt {
			js[0] = &refmodel.LogfmtStage{}
		}
		if in.Exprs {
			js[0] = &refmodel.JSONStage{Exprs: [][2]string{{"p", "o"}, {"q", "o"}, {"u", "o.name"}}}
		}
		var e refmodel.Expr
		switch in.Shape {
		case "count":
			e = &refmodel.RangeAgg{Op: "count_over_time", Stages: js, RangeNS: 10 * sec}
		default:
			g := c10JSONGroupings[in.Grouping]
			e = &refmodel.VecAgg{Op: "sum", Grouping: g, X: &refmodel.RangeAgg{Op: "count_over_time", Stages: js[:1], RangeNS: 10 * sec}}
		}
		return data, e
	}
	for i, set := range sets {
		labels := append([]mockq.KV(nil), set...)
		if in.Shape == "avg-unwrap" || in.Shape == "nested" || in.Shape == "nested-same-list" {
			labels = append(labels, mockq.KV{K: "v", V: "2"})
		}
		ts := (c09Base + int64(i)) * sec
		if len(sets) > 12 {
			ts = c09Base*sec + int64(i)*1e6 // many series: all of them inside the first window
		}
		rec := mockq.Rec{TS: ts, Line: "", Labels: labels}
		if len(in.Traces) > 0 {
			rec.Trace = in.Traces[i%len(in.Traces)]
		}
		data = append(data, rec)
	}
	g := c10Groupings[in.Grouping]
	var e refmodel.Expr
	switch in.Shape {
	case "count":
		e = &refmodel.RangeAgg{Op: "count_over_time", RangeNS: 10 * sec}
	case "sum-count":
		e = &refmodel.VecAgg{Op: "sum", Grouping: g, X: &refmodel.RangeAgg{Op: "count_over_time", RangeNS: 10 * sec}}
		if g == nil {
			// grouping-free sum is C11's subject; here: identity grouping over every label of the alphabet
			e = &refmodel.VecAgg{Op: "sum", Grouping: &refmodel.Grouping{Labels: []string{"a", "ab", "b", "bc", "c", "cd", "d", "e"}}, X: &refmodel.RangeAgg{Op: "count_over_time", RangeNS: 10 * sec}}
		}
	case "avg-unwrap":
		e = &refmodel.RangeAgg{Op: "avg_over_time", Unwrap: "v", RangeNS: 10 * sec, Grouping: g}
	case "lit-left", "lit-right":
		// a scalar operation must not touch series identity, whichever side the literal is written on
		x := &refmodel.VecAgg{Op: "sum", Grouping: g, X: &refmodel.RangeAgg{Op: "count_over_time", RangeNS: 10 * sec}}
		if g == nil {
			x.Grouping = &refmodel.Grouping{Without: true, Labels: []string{"zz"}}
		}
		if in.Shape == "lit-left" {
			e = &refmodel.Bin{Op: "*", L: &refmodel.Lit{V: 2}, R: x}
		} else {
			e = &refmodel.Bin{Op: "*", L: x, R: &refmodel.Lit{V: 2}}
		}
	case "without-all-or-vector":
		// every label hidden by without(): the empty label set again
		e = &refmodel.Bin{Op: "or", L: &refmodel.VecAgg{Op: "sum", Grouping: &refmodel.Grouping{Without: true, Labels: []string{"A", "a", "ab", "b", "bc", "c", "cd", "d", "e"}}, X: &refmodel.RangeAgg{Op: "count_over_time", RangeNS: 10 * sec}}, R: &refmodel.Vec{V: 0}}
	case "total-or-vector":
		// two ways of producing the empty label set must agree on its identity
		e = &refmodel.Bin{Op: "or", L: &refmodel.VecAgg{Op: "sum", X: &refmodel.RangeAgg{Op: "count_over_time", RangeNS: 10 * sec}}, R: &refmodel.Vec{V: 0}}
	case "vector-unless-total":
		e = &refmodel.Bin{Op: "unless", L: &refmodel.Vec{V: 1}, R: &refmodel.VecAgg{Op: "count", Grouping: &refmodel.Grouping{Labels: []string{}}, X: &refmodel.RangeAgg{Op: "count_over_time", RangeNS: 10 * sec}}}
	case "nested-same-list": // the same label list inside and outside, once kept and once removed
		inner, outer := &refmodel.Grouping{Labels: []string{"a"}}, &refmodel.Grouping{Without: true, Labels: []string{"a"}}
		if g != nil && !g.Without {
			inner, outer = &refmodel.Grouping{Without: true, Labels: []string{"a", "v"}}, &refmodel.Grouping{Labels: []string{"a", "v"}}
		}
		e = &refmodel.VecAgg{Op: "sum", Grouping: outer, X: &refmodel.RangeAgg{Op: "max_over_time", Unwrap: "v", RangeNS: 10 * sec, Grouping: inner}}
	case "vec-left": // vector(2) against labelled series: joined by label set like any two vectors
		e = &refmodel.Bin{Op: "*", L: &refmodel.Vec{V: 2}, R: &refmodel.RangeAgg{Op: "count_over_time", RangeNS: 10 * sec}}
	case "sort-count", "topk-count":
		// aggregations that pass series through unchanged: a label set still occurs once per step, at every step
		op, k := "sort", (*int)(nil)
		if in.Shape == "topk-count" {
			nine := 9
			op, k = "topk", &nine
		}
		e = &refmodel.VecAgg{Op: op, Param: k, X: &refmodel.RangeAgg{Op: "count_over_time", RangeNS: 10 * sec}}
	case "by-after-without":
		// an outer by() naming a label an inner without() removed: the label is gone, it does not come back
		outer := g
		if outer == nil {
			outer = &refmodel.Grouping{Labels: []string{"a", "b", "c"}}
		}
		e = &refmodel.VecAgg{Op: "sum", Grouping: outer, X: &refmodel.VecAgg{Op: "sum", Grouping: &refmodel.Grouping{Without: true, Labels: []string{"c", "b"}}, X: &refmodel.RangeAgg{Op: "count_over_time", RangeNS: 10 * sec}}}
	case "nested":
		// a vector aggregation over a range aggregation that carries its own without clause
		outer := g
		if outer == nil {
			outer = &refmodel.Grouping{Without: true, Labels: []string{"e"}}
		}
		e = &refmodel.VecAgg{Op: "count", Grouping: outer, X: &refmodel.RangeAgg{Op: "max_over_time", Unwrap: "v", RangeNS: 10 * sec, Grouping: &refmodel.Grouping{Without: true, Labels: []string{"v"}}}}
	}
	return data, e
}

// c10SetRange rewrites the range of every range aggregation inside e.
func c10SetRange(e refmodel.Expr, ns int64) {
	switch x := e.(type) {
	case *refmodel.RangeAgg:
		x.RangeNS = ns
	case *refmodel.VecAgg:
		c10SetRange(x.X, ns)
	case *refmodel.Bin:
		c10SetRange(x.L, ns)
		c10SetRange(x.R, ns)
	}
}

func c10Check(r *vkit.Run, in c10Input, replay []int) {
	data, expr := c10Build(in)
	if in.Turns > 0 {
		c10SetRange(expr, int64(in.Turns)*1e6)
	}
	start := (c09Base + 2) * sec
	end, step := start, int64(0)
	if in.Range {
		// the grid starts with the first record, so that samples keep arriving at later steps
		start = c09Base * sec
		end, step = start+3*sec, sec
		if in.Turns > 0 {
			end = start + int64(len(in.Sets)+len(in.Explicit)+in.Turns/1000+1)*sec // until every window has expired
		}
	}
	times := gridTimes(start, end, step)
	exp, _, _, _ := expectGrid(expr, data, times, refmodel.Convention{})
	opaque := in.Exprs && (in.Grouping == "by(p,q,u)" || in.Grouping == "without(msg)" || in.Shape == "count")
	// conservation, stated on its own: per step, counts over all series add up to the samples in the window
	outcomes := map[string]bool{}
	body := func(c *vsched.Ctx) {
		r.BeginChoices("C10", in, c.Prefix())
		res := evalEngineCtx(c, mockq.New(data), expr.Text(), start, end, time.Duration(step))
		r.Eval()
		canon := res
		canon.Series = append([]engSeries(nil), res.Series...)
		sort.Slice(canon.Series, func(i, j int) bool { return canon.Series[i].Labels.Key() < canon.Series[j].Labels.Key() })
		outcomes[canon.String()] = true // (the order of the series inside an answer is not part of it)
		if opaque {
			// labels whose values are whole JSON objects: their rendering is not modelled; what is required is one answer,
			// whatever the iteration order of the maps involved (below), without an error
			if res.Err != "" || res.Panic != "" {
				r.Fail("C10", in, c.TrimmedChoices(), map[string]any{"query": expr.Text(), "result": res.String()}, nil, expr.Text()+": "+res.String(), "")
			}
		} else if why := compare(res, exp, nil); why != "" {
			r.Fail("C10", in, c.TrimmedChoices(), map[string]any{"query": expr.Text(), "result": res.String()}, exp,
				fmt.Sprintf("%s over label sets %v: %s", expr.Text(), c10DescribeIn(in), why), "")
		}
		if c.Diverged != "" {
			r.HarnessError("replay divergence: %s", c.Diverged)
		}
	}
	if replay != nil {
		body(vsched.NewCtx(replay))
		return
	}
	st := vsched.Explore(in.Bound, 0, body, func(*vsched.Ctx) bool { return !r.Stop() })
	r.Step(int(st.Points) + int(st.Executions))
	r.Count("map_order_executions", st.Executions)
	if opaque && len(outcomes) > 1 {
		var all []string
		for k := range outcomes {
			all = append(all, k)
		}
		sort.Strings(all)
		r.Fail("C10/map-order", in, nil, all, nil, fmt.Sprintf("%s: %d different answers under different map iteration orders", expr.Text(), len(outcomes)), "")
	}
	r.Count("executions_with_rotated_iteration", st.Deviating)
	if int64(st.MaxPoints) > r.Counters["max_map_iterations_per_eval"] {
		r.Counters["max_map_iterations_per_eval"] = int64(st.MaxPoints)
	}
	if st.Capped {
		r.Cap("map-order exploration stopped early")
	}
	r.State(vkit.J(in.Sets) + vkit.J(in.Explicit) + vkit.J(in.JSON) + fmt.Sprint(in.Turns) + in.Shape + in.Grouping + fmt.Sprint(in.Range))
	if r.WantSample() && len(in.Sets) >= 2 && in.Grouping != "" {
		r.Sample(map[string]any{"input": in, "query": expr.Text(), "label_sets": c10Describe(in.Sets), "map_order_executions": st.Executions})
	}
}

func c10DescribeIn(in c10Input) []string {
	if len(in.Explicit) == 0 {
		return c10Describe(in.Sets)
	}
	var out []string
	for _, set := range in.Explicit {
		l := refmodel.Labels{}
		for _, kv := range set {
			l[kv.K] = kv.V
		}
		out = append(out, l.Key())
	}
	return out
}

// c10Colliding enumerates every pair of distinct label sets (1-2 labels over 5 names x 5 values) whose
// sorted name/value sequences coincide under some serialisation that omits a separator: none at all,
// only between name and value, or only between pairs. Any keying scheme that forgets one of the two
// separators merges exactly such a pair.
func c10Colliding() [][2][]mockq.KV {
	names := []string{"a", "ab", "b", "bc", "c"}
	values := []string{"", "b", "c", "bc", "cd"}
	var sets [][]mockq.KV
	for _, n := range names {
		for _, v := range values {
			sets = append(sets, []mockq.KV{{K: n, V: v}})
		}
	}
	for i, n1 := range names {
		for _, n2 := range names[i+1:] {
			for _, v1 := range values {
				for _, v2 := range values {
					sets = append(sets, []mockq.KV{{K: n1, V: v1}, {K: n2, V: v2}})
				}
			}
		}
	}
	ser := func(set []mockq.KV, nv, pair string) string {
		out := ""
		for _, kv := range set {
			out += kv.K + nv + kv.V + pair
		}
		return out
	}
	var out [][2][]mockq.KV
	// same names, permuted values: any key that only depends on the multiset of names and values merges these
	for _, pv := range [][2]string{{"b", "c"}, {"", "b"}, {"bc", "cd"}} {
		out = append(out, [2][]mockq.KV{{{K: "a", V: pv[0]}, {K: "c", V: pv[1]}}, {{K: "a", V: pv[1]}, {K: "c", V: pv[0]}}})
		out = append(out, [2][]mockq.KV{{{K: "ab", V: pv[0]}, {K: "b", V: pv[1]}}, {{K: "ab", V: pv[1]}, {K: "b", V: pv[0]}}})
	}
	// a value that spells "value <sep> name <sep> value" of another set, for every byte a keying scheme might use as
	// its separator (label values are arbitrary bytes: msg is the log line)
	for _, sep := range []string{"\xff", "\x00", "\xfe", "\x1f", "\x1e", "\x01", ",", "=", "\"", ";", "|", "\n", "\x00\x00", "\xff\xff"} {
		out = append(out, [2][]mockq.KV{{{K: "a", V: "x" + sep + "n" + sep + "y"}}, {{K: "a", V: "x"}, {K: "n", V: "y"}}})
		out = append(out, [2][]mockq.KV{{{K: "a", V: "x" + sep + "n" + sep + "y" + sep}}, {{K: "a", V: "x"}, {K: "n", V: "y"}}})
		out = append(out, [2][]mockq.KV{{{K: "a", V: sep + "n" + sep}}, {{K: "a", V: ""}, {K: "n", V: ""}}})
	}
	// attribute names that need sanitising and share a tail, a middle or a head (one name each after sanitising, or not)
	out = append(out, [2][]mockq.KV{{{K: "http.status", V: "500"}}, {{K: "grpc.status", V: "500"}}})
	out = append(out, [2][]mockq.KV{{{K: "a.b", V: "1"}}, {{K: "a/b", V: "1"}, {K: "c.b", V: "1"}}})
	out = append(out, [2][]mockq.KV{{{K: "x.y.z", V: "1"}}, {{K: ".y.z", V: "1"}}})
	out = append(out, [2][]mockq.KV{{{K: "0a", V: "1"}}, {{K: ".0a", V: "1"}, {K: "é0a", V: "1"}}})
	// long label sets that differ only at their very end (a key computed over a bounded prefix merges them)
	for _, n := range []int{100, 300, 600, 5000, 70000} {
		long := strings.Repeat("L", n)
		out = append(out, [2][]mockq.KV{{{K: "a", V: long + "1"}}, {{K: "a", V: long + "2"}}})
		out = append(out, [2][]mockq.KV{{{K: "a", V: long}, {K: "z", V: "1"}}, {{K: "a", V: long}, {K: "z", V: "2"}}})
		out = append(out, [2][]mockq.KV{{{K: "a", V: long}, {K: "z", V: "1"}}, {{K: "a", V: long}, {K: "zz", V: "1"}}})
	}
	for i := range sets {
		for j := i + 1; j < len(sets); j++ {
			a, b := sets[i], sets[j]
			if ser(a, "", "") == ser(b, "", "") || ser(a, "\x00", "") == ser(b, "\x00", "") || ser(a, "", "\x00") == ser(b, "", "\x00") {
				out = append(out, [2][]mockq.KV{a, b})
			}
		}
	}
	return out
}

func c10Describe(sets []int) []string {
	var out []string
	for _, i := range sets {
		l := refmodel.Labels{}
		for _, kv := range c10Sets[i] {
			l[kv.K] = kv.V
		}
		out = append(out, l.Key())
	}
	return out
}

func c10Run(r *vkit.Run) {
	if !vsched.SeamAvailable() {
		r.HarnessError("mcheck must be built with the runtime map-order seam")
	}
	n, bound := 2, 2
	if r.Thorough() {
		n, bound = 3, 3
	}
	idx := 0
	var tuples [][]int
	var rec func(cur []int)
	rec = func(cur []int) {
		if len(cur) > 0 {
			tuples = append(tuples, append([]int(nil), cur...))
		}
		if len(cur) == n {
			return
		}
		for i := range c10Sets {
			rec(append(cur, i))
		}
	}
	rec(nil)
	for _, tu := range tuples {
		idx++
		if !r.Mine(idx) {
			continue
		}
		if r.Stop() {
			break
		}
		for _, shape := range []string{"count", "sum-count", "avg-unwrap", "nested", "total-or-vector", "vector-unless-total", "lit-left", "lit-right", "without-all-or-vector", "sort-count", "topk-count", "by-after-without", "nested-same-list", "vec-left"} {
			for _, g := range c10GroupingNames {
				if shape == "nested-same-list" && g != "" && g != "by(a)" {
					continue // (two variants: the grouping only says which of the two carries `by`)
				}
				if (shape == "count" || shape == "sort-count" || shape == "topk-count" || shape == "vec-left" || shape == "total-or-vector" || shape == "vector-unless-total" || shape == "without-all-or-vector") && g != "" {
					continue // the grammar forbids grouping on count_over_time
				}
				for _, rg := range []bool{false, true} {
					b := bound
					if len(tu) == 3 {
						b = 2
						if rg {
							b = 1
						}
					}
					c10Check(r, c10Input{Sets: tu, Shape: shape, Grouping: g, Range: rg, Bound: b}, nil)
				}
			}
		}
		if len(tu) >= 2 {
			r.NonTrivial()
		}
	}
	// every pair of label sets that collides under a separator-free serialisation (default map order)
	coll := c10Colliding()
	for _, pr := range coll {
		idx++
		if !r.Mine(idx) || r.Stop() {
			continue
		}
		for _, shape := range []string{"count", "sum-count"} {
			for _, rg := range []bool{false, true} {
				c10Check(r, c10Input{Explicit: [][]mockq.KV{pr[0], pr[1]}, Shape: shape, Range: rg, Bound: 0}, nil)
				c10Check(r, c10Input{Explicit: [][]mockq.KV{pr[1], pr[0], pr[0]}, Shape: shape, Range: rg, Bound: 0}, nil)
			}
		}
		r.NonTrivial()
	}
	// trace ids: full width, 64-bit ids padded to 128 bits on either side, none: every assignment to three records
	// of one label set and of two
	{
		ids := []string{"", "0102030405060708090a0b0c0d0e0f10", "000000000000000000000000000000ab", "ab000000000000000000000000000000", "00000000000000000000000000000000"}
		for a := range ids {
			for b := range ids {
				for c := range ids {
					idx++
					if !r.Mine(idx) || r.Stop() {
						continue
					}
					tr := []string{ids[a], ids[b], ids[c]}
					for _, rg := range []bool{false, true} {
						c10Check(r, c10Input{Sets: []int{5, 5, 5}, Traces: tr, Shape: "count", Range: rg, Bound: 0}, nil)
						c10Check(r, c10Input{Sets: []int{5, 0, 5}, Traces: tr, Shape: "sum-count", Grouping: "by(trace_id)", Range: rg, Bound: 0}, nil)
					}
				}
			}
		}
	}
	// label values that are JSON numbers / booleans / strings: every tuple of 1..2 (thorough: 3) lines
	var jt [][]int
	var jrec func(cur []int)
	jrec = func(cur []int) {
		if len(cur) > 0 {
			jt = append(jt, append([]int(nil), cur...))
		}
		if len(cur) == n {
			return
		}
		for i := range c10JSONLines {
			jrec(append(cur, i))
		}
	}
	jrec(nil)
	for _, tu := range jt {
		idx++
		if !r.Mine(idx) || r.Stop() {
			continue
		}
		for _, rg := range []bool{false, true} {
			c10Check(r, c10Input{JSON: tu, Shape: "count", Range: rg, Bound: 1}, nil)
			lf, ok := make([]int, len(tu)), true
			for i, v := range tu {
				lf[i] = v
				ok = ok && v < len(c10LogfmtLines)
			}
			if ok {
				c10Check(r, c10Input{JSON: lf, Logfmt: true, Shape: "count", Range: rg, Bound: 1}, nil)
				c10Check(r, c10Input{JSON: lf, Logfmt: true, Shape: "sum-count", Grouping: "without(msg)", Range: rg, Bound: 1}, nil)
			}
			if ok {
				// the same over records that carry a resource attribute one of the lines names, too
				c10Check(r, c10Input{JSON: lf, Logfmt: true, Host: true, Shape: "sum-count", Grouping: "by(host)", Range: rg, Bound: 0}, nil)
				c10Check(r, c10Input{JSON: lf, Logfmt: true, Host: true, Shape: "count", Range: rg, Bound: 0}, nil)
			}
			ex, okx := true, true
			for _, v := range tu {
				okx = okx && v < len(c10ExprLines)
			}
			if ex && okx {
				for _, g := range []string{"by(p,q,u)", "by(u)", "without(msg)"} {
					c10Check(r, c10Input{JSON: tu, Exprs: true, Shape: "sum-count", Grouping: g, Range: rg, Bound: 1}, nil)
				}
				c10Check(r, c10Input{JSON: tu, Exprs: true, Shape: "count", Range: rg, Bound: 1}, nil)
			}
			for _, g := range []string{"by(code)", "by(code,ok)", "by(ok)", "without(msg)", "without(msg,ok)"} {
				c10Check(r, c10Input{JSON: tu, Shape: "sum-count", Grouping: g, Range: rg, Bound: 1}, nil)
			}
		}
		if len(tu) >= 2 {
			r.NonTrivial()
		}
	}
	// series that take turns and windows that expire partially: every sequence of 3..5 records over two label sets
	// (and a third one in the middle), one record per second, ranges of 1 s and 2 s, one step per second
	for length := 3; length <= 5; length++ {
		for mask := 0; mask < 1<<length; mask++ {
			idx++
			if !r.Mine(idx) || r.Stop() {
				continue
			}
			seq := make([]int, length)
			for i := range seq {
				seq[i] = []int{5, 0}[(mask>>i)&1] // {a="b"} and {a="bc"}
			}
			if mask%3 == 0 {
				seq[length/2] = 2 // {a="b", c="d"}
			}
			for _, turns := range []int{500, 1000, 2000, 3000} {
				for _, shape := range []string{"count", "sum-count", "lit-left", "sort-count", "topk-count", "by-after-without"} {
					g := ""
					if shape == "sum-count" || shape == "lit-left" {
						g = "by(a)"
					}
					c10Check(r, c10Input{Sets: seq, Shape: shape, Grouping: g, Range: true, Bound: 1, Turns: turns}, nil)
				}
			}
			r.NonTrivial()
		}
	}
	// many series: beyond every small-map / small-slice threshold (9, 17, 65, 300 distinct label sets, plus duplicates)
	for _, nser := range []int{9, 17, 65, 300} {
		idx++
		if !r.Mine(idx) || r.Stop() {
			continue
		}
		var sets [][]mockq.KV
		for i := 0; i < nser; i++ {
			sets = append(sets, []mockq.KV{{K: "a", V: fmt.Sprintf("v%d", i%(nser/3+1))}, {K: "c", V: fmt.Sprintf("w%d", i)}})
		}
		sets = append(sets, sets[0], sets[nser/2], sets[nser-1]) // three label sets occur twice
		for _, shape := range []string{"count", "sum-count"} {
			for _, g := range []string{"", "by(a)", "without(c)", "by(a,c)"} {
				if shape == "count" && g != "" {
					continue
				}
				c10Check(r, c10Input{Explicit: sets, Shape: shape, Grouping: g, Range: nser < 100, Bound: 0}, nil)
			}
		}
		r.NonTrivial()
	}
	r.Count("separator_collision_pairs", int64(len(coll)))
	r.Note("bounds", fmt.Sprintf("all tuples of 1..%d label sets from a 14-set colliding alphabet x {count_over_time, sum by/without(...) of it, avg_over_time by/without(...)} x 6 groupings x {instant, 3-step range}; all tuples of 10 JSON lines whose label values are numbers, booleans and strings (through | json) x 6 groupings; every sequence of 3..5 records over 2-3 label sets under ranges of 0.5, 1, 2 and 3 s with one step per second (series taking turns, partial expiry); every map iteration inside Eval is a choice point, deviation bound %d (complete rotation set: all label maps have <= 8 entries)", n, bound))
}

func c10Replay(r *vkit.Run, v vkit.Violation) *vkit.Violation {
	var in c10Input
	if err := vkit.DecodeInput(v, &in); err != nil {
		r.HarnessError("bad input: %v", err)
	}
	ch := v.Choices
	if ch == nil {
		ch = []int{}
	}
	return vkit.ReplayOne(r, func() { c10Check(r, in, ch) })
}
