//go:build verif

package main

import "github.com/tdakkota/docker-logql/internal/zzverif/vkit"

func main() {
	vkit.Main(map[string]vkit.Check{
		"C13": {Run: c13Run, Replay: c13Replay},
		"C09": {Run: c09Run, Replay: c09Replay},
		"C10": {Run: c10Run, Replay: c10Replay},
		"C11": {Run: c11Run, Replay: c11Replay},
		"C12": {Run: c12Run, Replay: c12Replay},
	})
}
