//go:build verif

package main

import (
	"context"
	"fmt"
	"sort"
	"strconv"
	"strings"
	"time"

	"go.opentelemetry.io/otel/trace/noop"

	"github.com/tdakkota/docker-logql/internal/dockerlog"
	"github.com/tdakkota/docker-logql/internal/logql/logqlengine"
	"github.com/tdakkota/docker-logql/internal/otelstorage"
	"github.com/tdakkota/docker-logql/internal/zzverif/fakedocker"
	"github.com/tdakkota/docker-logql/internal/zzverif/mockq"
	"github.com/tdakkota/docker-logql/internal/zzverif/refmodel"
	"github.com/tdakkota/docker-logql/internal/zzverif/vkit"
	"github.com/tdakkota/docker-logql/internal/zzverif/vsched"
)

// ---- range aggregations over pipelines -----------------------------------------------------------
//
// The window, the samples in it and what each of them weighs are the same whatever stands between the selector
// and the range: a pipeline decides per record whether it is a sample, under which labels and with which line.
// Stages are exercised by C01/C06/C07 in log queries; here the same stage code runs in the sampler, which hands
// every record a fresh label set and keeps no result between records.

type c09PipeInput struct {
	Pipe    int    `json:"pipe"` // index into c09Pipes
	Fn      string `json:"fn"`   // count, bytes, sum-by-level, unwrap-sum
	RangeS  int    `json:"range_s"`
	StartS  int    `json:"start_s"`
	SpanS   int    `json:"span_s"`
	StepS   int    `json:"step_s"` // 0 = instant
	Text    string `json:"text,omitempty"`
	Reverse bool   `json:"reverse,omitempty"` // the data's label presence pattern starts with a record lacking `level`
}

func c09PipeData(reverse bool) []mockq.Rec {
	lines := []string{"GET /a\n", `{"text":"","v":2}`, "x=1 text= v=3", "plain", "", `{"text":"body","v":"7"}`, "GET /b\r\n", "x=2 v=0", "tail"}
	levels := []string{"", "debug", "info", "", "info", "debug", "", "info", "debug"}
	var out []mockq.Rec
	for i, l := range lines {
		k := i
		if reverse {
			k = (i + 1) % len(levels)
		}
		labels := []mockq.KV{{K: "s", V: []string{"a", "b"}[i%2]}}
		if lv := levels[k]; lv != "" {
			labels = append(labels, mockq.KV{K: "level", V: lv})
		}
		if i%3 == 2 {
			labels = append(labels, mockq.KV{K: "b", V: strconv.Itoa(i % 2)}) // b=0 makes {{ div 7 (int .b) }} fail
		}
		out = append(out, mockq.Rec{TS: c09Base*sec + int64(i)*sec, Line: l, Labels: labels})
	}
	return out
}

func pstr(l, op, v string) refmodel.Stage {
	return &refmodel.LabelFilter{P: &refmodel.PStr{Label: l, Op: op, Value: v}}
}

var c09Pipes = [][]refmodel.Stage{
	{pstr("level", "!~", "debug")},
	{pstr("level", "=~", "info|")},
	{pstr("level", "!=", "debug"), pstr("s", "=~", "a|b")},
	{&refmodel.LineFilter{Op: "|=", Value: "GET"}},
	{&refmodel.LineFilter{Op: "!=", Value: "x="}},
	{&refmodel.LineFilter{Op: "|~", Value: "a$|^$|v"}},
	{&refmodel.JSONStage{}, &refmodel.LineFormat{T: refmodel.Template{{Label: "text"}}}},
	{&refmodel.LogfmtStage{}, &refmodel.LineFormat{T: refmodel.Template{{Label: "text"}}}, &refmodel.LineFilter{Op: "|=", Value: "t"}},
	{&refmodel.LineFormat{T: refmodel.Template{{Lit: "<"}, {Line: true}, {Lit: ">"}}}},
	{&refmodel.LineFormat{T: refmodel.Template{{TSNanos: true}, {Lit: " "}, {Label: "s"}}}},
	{&refmodel.LineFormat{T: refmodel.Template{{Lit: "partial"}, {Label: "s"}, {Lit: ":"}, {Div: "b"}}}},
	{&refmodel.LineFormat{T: refmodel.Template{{Lit: "partial"}, {Div: "b"}}}, &refmodel.LineFormat{T: refmodel.Template{{Lit: "["}, {Line: true}, {Lit: "]"}}}},
	{&refmodel.Drop{Items: []refmodel.DKItem{{Label: "level"}}}},
	{&refmodel.Drop{Items: []refmodel.DKItem{{Label: "level", Op: "=", Value: "debug"}, {Label: "b"}}}},
	{&refmodel.Keep{Items: []refmodel.DKItem{{Label: "s"}}}},
	{&refmodel.LabelFormat{Items: []refmodel.LFItem{{Dst: "lv", Src: "level"}}}},
	{&refmodel.LabelFormat{Items: []refmodel.LFItem{{Dst: "w", T: refmodel.Template{{Lit: "w-"}, {Line: true}}}}}, &refmodel.Drop{Items: []refmodel.DKItem{{Label: "msg"}}}},
	{&refmodel.Decolorize{}, &refmodel.LineFilter{Op: "!=", Value: "plain"}},
	{&refmodel.LogfmtStage{}, pstr("x", "!=", "")},
	{&refmodel.JSONStage{}, pstr("text", "=", "")},
}

func c09PipeExpr(in c09PipeInput) refmodel.Expr {
	st := c09Pipes[in.Pipe]
	rg := int64(in.RangeS) * sec
	switch in.Fn {
	case "bytes":
		return &refmodel.RangeAgg{Op: "bytes_over_time", Stages: st, RangeNS: rg}
	case "sum-by-level":
		return &refmodel.VecAgg{Op: "sum", Grouping: &refmodel.Grouping{Labels: []string{"level", "s"}}, X: &refmodel.RangeAgg{Op: "count_over_time", Stages: st, RangeNS: rg}}
	case "sum-bytes-by-s":
		return &refmodel.VecAgg{Op: "sum", Grouping: &refmodel.Grouping{Labels: []string{"s"}}, X: &refmodel.RangeAgg{Op: "bytes_over_time", Stages: st, RangeNS: rg}}
	}
	return &refmodel.RangeAgg{Op: "count_over_time", Stages: st, RangeNS: rg}
}

func c09PipeCheck(r *vkit.Run, in c09PipeInput) {
	expr := c09PipeExpr(in)
	in.Text = expr.Text()
	r.Begin("C09/pipeline", in)
	data := c09PipeData(in.Reverse)
	start := c09Base*sec + int64(in.StartS)*sec
	end := start + int64(in.SpanS)*sec
	step := int64(in.StepS) * sec
	if in.StepS == 0 {
		end = start
	}
	res := evalEngineLimit(nil, mockq.New(data), in.Text, start, end, time.Duration(step), -1)
	r.Eval()
	times := gridTimes(start, end, step)
	r.Step(len(times))
	exp, expLabels, _, _ := expectGrid(expr, data, times, refmodel.Convention{})
	// the text of __error__ / __error_details__ is the implementation's own: a flagged series is compared as flagged
	// (series that differ in that text only are added up, on both sides: counts and byte sums are additive)
	norm := func(l refmodel.Labels) refmodel.Labels {
		out := refmodel.Labels{}
		for k, v := range l {
			switch k {
			case refmodel.ErrorDetails:
			case refmodel.ErrorLabel:
				out[k] = "<set>"
			default:
				out[k] = v
			}
		}
		return out
	}
	addUp := func(dst map[string][]point, key string, pts []point) {
		have := dst[key]
		for _, p := range pts {
			found := false
			for i := range have {
				if have[i].T == p.T {
					have[i].V += p.V
					found = true
				}
			}
			if !found {
				have = append(have, p)
			}
		}
		sort.Slice(have, func(i, j int) bool { return have[i].T < have[j].T })
		dst[key] = have
	}
	nexp := map[string][]point{}
	for k, pts := range exp {
		addUp(nexp, norm(expLabels[k]).Key(), pts)
	}
	exp = nexp
	if res.Err == "" && res.Panic == "" {
		merged := map[string][]point{}
		labelOf := map[string]refmodel.Labels{}
		var order []string
		for _, sr := range res.Series {
			nl := norm(sr.Labels)
			if _, ok := labelOf[nl.Key()]; !ok {
				order = append(order, nl.Key())
			}
			labelOf[nl.Key()] = nl
			addUp(merged, nl.Key(), sr.Points)
		}
		res.Series = nil
		for _, k := range order {
			res.Series = append(res.Series, engSeries{Labels: labelOf[k], Points: merged[k]})
		}
	}
	if why := compare(res, exp, nil); why != "" {
		r.Fail("C09/pipeline", in, nil, map[string]any{"query": in.Text, "result": res.String()}, exp,
			fmt.Sprintf("%s, grid start=%ds span=%ds step=%ds: %s", in.Text, in.StartS, in.SpanS, in.StepS, why), "")
	}
}

func c09PipeRun(r *vkit.Run, idx *int) {
	for pi := range c09Pipes {
		*idx++
		if !r.Mine(*idx) || r.Stop() {
			continue
		}
		for _, fn := range []string{"count", "bytes", "sum-by-level", "sum-bytes-by-s"} {
			for _, rg := range []int{2, 4} {
				for _, rev := range []bool{false, true} {
					for _, g := range [][3]int{{3, 0, 0}, {4, 0, 0}, {8, 0, 0}, {0, 8, 1}, {3, 6, 1}, {4, 6, 2}, {1, 9, 3}, {2, 10, 5}} {
						c09PipeCheck(r, c09PipeInput{Pipe: pi, Fn: fn, RangeS: rg, StartS: g[0], SpanS: g[1], StepS: g[2], Reverse: rev})
					}
				}
			}
		}
		r.NonTrivial()
		r.State(fmt.Sprintf("pipe%d", pi))
	}
}

// ---- range aggregations over the Docker querier ------------------------------------------------------
//
// The same windows over records that reach the sampler through the real storage of the plugin: the daemon's log
// streams (a fake daemon that answers with the frames inside the requested window only, as the daemon does), the
// frame decoder and the merge of several containers.

type c09DockerInput struct {
	Logs    [][]int `json:"logs"` // per container: record times in units of UnitMS after the base
	UnitMS  int     `json:"unit_ms"`
	Fn      string  `json:"fn"` // count, bytes
	RangeMS int     `json:"range_ms"`
	StartMS int     `json:"start_ms"`
	SpanMS  int     `json:"span_ms"`
	StepMS  int     `json:"step_ms"` // 0 = instant
	Honour  bool    `json:"honour"`  // the fake daemon honours since/until
}

func c09DockerCheck(r *vkit.Run, in c09DockerInput) {
	r.Begin("C09/docker", in)
	ms := int64(1e6)
	base := c09Base * sec
	var ctrs []fakedocker.Container
	var model []mockq.Rec
	for i, seq := range in.Logs {
		name := fmt.Sprintf("n%d", i)
		var recs []fakedocker.Rec
		for j, t := range seq {
			ts := base + int64(t)*int64(in.UnitMS)*ms
			msg := fmt.Sprintf("m%d-%d", i, j)
			recs = append(recs, fakedocker.Rec{Stream: byte(1 + (i+j)%2), TS: fakedocker.TS(ts), Msg: msg})
			model = append(model, mockq.Rec{TS: ts, Line: msg, Labels: []mockq.KV{{K: "container", V: name}}})
		}
		ctrs = append(ctrs, fakedocker.Container{ID: "id" + strconv.Itoa(i), Name: "/" + name, Image: "img", State: "running", Log: fakedocker.Encode(recs)})
	}
	op := "count_over_time"
	if in.Fn == "bytes" {
		op = "bytes_over_time"
	}
	expr := &refmodel.VecAgg{Op: "sum", Grouping: &refmodel.Grouping{Labels: []string{"container"}}, X: &refmodel.RangeAgg{Op: op, RangeNS: int64(in.RangeMS) * ms}}
	start := base + int64(in.StartMS)*ms
	end := start + int64(in.SpanMS)*ms
	step := int64(in.StepMS) * ms
	if in.StepMS == 0 {
		end = start
	}
	fake := fakedocker.New(ctrs)
	fake.HonourWindow = in.Honour
	var res engResult
	s := vsched.RunMain(vsched.NewCtx(nil), func() {
		q, _ := dockerlog.NewQuerier(fake)
		eng := logqlengine.NewEngine(q, logqlengine.Options{TracerProvider: noop.NewTracerProvider()})
		data, err := eng.Eval(context.Background(), expr.Text(), logqlengine.EvalParams{Start: otelstorage.Timestamp(start), End: otelstorage.Timestamp(end), Step: time.Duration(step), Limit: -1})
		if err != nil {
			res.Err = err.Error()
			return
		}
		res = convertResult(data)
	})
	if len(s.Panics) > 0 {
		res.Panic = fmt.Sprint(s.Panics)
	}
	if s.Deadlock != "" {
		res.Err = "deadlock: " + s.Deadlock
	}
	r.Eval()
	times := gridTimes(start, end, step)
	r.Step(len(times))
	exp, _, _, _ := expectGrid(expr, model, times, refmodel.Convention{})
	if why := compare(res, exp, nil); why != "" {
		r.Fail("C09/docker", in, nil, map[string]any{"query": expr.Text(), "result": res.String()}, exp,
			fmt.Sprintf("%s over the Docker querier, container logs %v (x %d ms), grid start=%dms span=%dms step=%dms: %s", expr.Text(), in.Logs, in.UnitMS, in.StartMS, in.SpanMS, in.StepMS, why), "")
	}
}

func c09DockerRun(r *vkit.Run, idx *int) {
	inventories := [][][]int{
		{{0, 1, 2, 3, 4, 5, 6, 7, 8}},
		{{0, 2, 4, 6}, {1, 3, 5, 7}},
		{{0, 4, 8}, {2}, {1, 3, 5, 6, 7}},
		{{1, 1, 2}, {1, 2, 2}, {}},
		{{0, 6}, {1, 2}, {3}, {4, 5}},
		{{5}, {0, 1, 2, 3}, {4}},
		{{2, 3}, {2, 3}, {2, 3}},
	}
	for _, inv := range inventories {
		for _, unit := range []int{1000, 50, 350} {
			*idx++
			if !r.Mine(*idx) || r.Stop() {
				continue
			}
			for _, fn := range []string{"count", "bytes"} {
				for _, rg := range []int{2, 4} {
					for _, g := range [][3]int{{3, 0, 0}, {4, 0, 0}, {8, 0, 0}, {0, 8, 1}, {2, 6, 1}, {3, 6, 2}, {1, 9, 3}, {2, 10, 5}, {4, 4, 4}} {
						for _, honour := range []bool{true, false} {
							if honour && unit != 1000 {
								// the daemon is asked in whole seconds (C02): what an honouring daemon cuts off inside the last
								// second of a window that ends between two seconds is not this property's subject
								continue
							}
							c09DockerCheck(r, c09DockerInput{Logs: inv, UnitMS: unit, Fn: fn, RangeMS: rg * unit, StartMS: g[0] * unit, SpanMS: g[1] * unit, StepMS: g[2] * unit, Honour: honour})
						}
					}
				}
			}
			r.NonTrivial()
			r.State(fmt.Sprint("docker", inv, unit))
		}
	}
}

// ---- spellings of the range and the offset --------------------------------------------------------------
//
// [4.1s], [4100ms] and [4s100ms] are one range: a sample exactly on the left edge of the window is inside it under
// every spelling.

type c09SpellInput struct {
	RangeMS  int    `json:"range_ms"`
	Range    string `json:"range"`
	OffsetMS int    `json:"offset_ms"`
	Offset   string `json:"offset,omitempty"`
	// SubUS: the evaluation time lies that many microseconds after a whole second; Steps > 0: a range query of that many
	// one-second steps from there instead of an instant one
	SubUS int `json:"sub_us,omitempty"`
	Steps int `json:"steps,omitempty"`
	// LongLines: the lines are 3000 bytes long and differ in their last byte only (every line its own series)
	LongLines bool `json:"long_lines,omitempty"`
}

func c09SpellCheck(r *vkit.Run, in c09SpellInput) {
	r.Begin("C09/spelling", in)
	ms := int64(1e6)
	base := c09Base * sec
	t := base + 20*sec + int64(in.SubUS)*1000
	// samples exactly on the two edges, one nanosecond outside each, and one in the middle
	left, right := t-int64(in.OffsetMS)*ms-int64(in.RangeMS)*ms, t-int64(in.OffsetMS)*ms
	var data []mockq.Rec
	for i, ts := range []int64{left - 1, left, (left + right) / 2, right, right + 1} {
		line := "l" + strconv.Itoa(i)
		if in.LongLines {
			line = strings.Repeat("L", 2999) + strconv.Itoa(i)
		}
		data = append(data, mockq.Rec{TS: ts, Line: line, Labels: []mockq.KV{{K: "s", V: "a"}}})
	}
	var expr refmodel.Expr = &refmodel.VecAgg{Op: "sum", X: &refmodel.RangeAgg{Op: "count_over_time", RangeNS: int64(in.RangeMS) * ms, OffsetNS: int64(in.OffsetMS) * ms, RangeText: in.Range, OffsetText: in.Offset}}
	if in.LongLines || in.SubUS > 0 {
		// (every line its own series: which samples are inside the window shows, not only how many)
		expr = &refmodel.RangeAgg{Op: "count_over_time", RangeNS: int64(in.RangeMS) * ms, OffsetNS: int64(in.OffsetMS) * ms, RangeText: in.Range, OffsetText: in.Offset}
	}
	q := mockq.New(data)
	q.TimeFilter = false
	times := []int64{t}
	end, step := t, time.Duration(0)
	if in.Steps > 0 {
		step = time.Second
		end = t + int64(in.Steps)*sec
		times = gridTimes(t, end, sec)
	}
	res := evalEngineLimit(nil, q, expr.Text(), t, end, step, -1)
	r.Eval()
	r.Step(len(times))
	exp, _, _, _ := expectGrid(expr, data, times, refmodel.Convention{})
	if why := compare(res, exp, nil); why != "" {
		r.Fail("C09/spelling", in, nil, map[string]any{"query": expr.Text(), "result": res.String()}, exp,
			fmt.Sprintf("%s with samples on both edges of the window, one nanosecond outside each and one inside: %s", expr.Text(), why), "")
	}
}

// c09Spellings writes a duration of ms milliseconds in every way the grammar offers.
func c09Spellings(ms int) []string {
	out := []string{strconv.Itoa(ms) + "ms"}
	if ms%100 == 0 {
		out = append(out, strconv.FormatFloat(float64(ms)/1000, 'f', -1, 64)+"s")
	}
	if ms >= 1000 && ms%1000 != 0 {
		out = append(out, strconv.Itoa(ms/1000)+"s"+strconv.Itoa(ms%1000)+"ms")
	}
	if ms%1000 == 0 {
		out = append(out, strconv.Itoa(ms/1000)+"s")
	}
	if ms%3000 == 0 {
		out = append(out, strconv.FormatFloat(float64(ms)/60000, 'f', -1, 64)+"m")
	}
	if ms >= 60000 && ms%1000 == 0 {
		out = append(out, strconv.Itoa(ms/60000)+"m"+strconv.Itoa(ms/1000%60)+"s")
	}
	return out
}

func c09SpellRun(r *vkit.Run, idx *int) {
	var ranges []int
	for d := 1; d <= 99; d++ {
		ranges = append(ranges, d*100) // 0.1 s .. 9.9 s
	}
	for _, m := range []int{63000, 123000, 69000, 90000, 3000, 129000, 177000} {
		ranges = append(ranges, m) // 1.05 m, 2.05 m, 1.15 m, 1.5 m, 0.05 m, 2.15 m, 2.95 m
	}
	for _, rg := range ranges {
		*idx++
		if !r.Mine(*idx) || r.Stop() {
			continue
		}
		for _, sp := range c09Spellings(rg) {
			c09SpellCheck(r, c09SpellInput{RangeMS: rg, Range: sp})
			c09SpellCheck(r, c09SpellInput{RangeMS: 2000, Range: "2s", OffsetMS: rg, Offset: sp})
		}
		r.State(fmt.Sprint("spell", rg))
	}
	// evaluation times off the millisecond grid (instant and three steps), and lines of 3000 bytes that differ at the end
	for _, rg := range []int{1000, 2000, 4100} {
		*idx++
		if !r.Mine(*idx) || r.Stop() {
			continue
		}
		for _, sub := range []int{1, 250, 999} {
			for _, steps := range []int{0, 3} {
				c09SpellCheck(r, c09SpellInput{RangeMS: rg, Range: strconv.Itoa(rg) + "ms", SubUS: sub, Steps: steps})
				c09SpellCheck(r, c09SpellInput{RangeMS: 2000, Range: "2s", OffsetMS: rg, Offset: strconv.Itoa(rg) + "ms", SubUS: sub, Steps: steps})
			}
		}
		c09SpellCheck(r, c09SpellInput{RangeMS: rg, Range: strconv.Itoa(rg) + "ms", LongLines: true})
		c09SpellCheck(r, c09SpellInput{RangeMS: rg, Range: strconv.Itoa(rg) + "ms", LongLines: true, Steps: 3})
	}
}
