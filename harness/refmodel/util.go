//go:build verif

package refmodel

import (
	"regexp"
	"strconv"
	"strings"
)

// MatchString is the reference semantics of =, !=, =~ (fully anchored), !~ on a label value.
func MatchString(v, op, pattern string) bool {
	switch op {
	case "=":
		return v == pattern
	case "!=":
		return v != pattern
	case "=~":
		return regexp.MustCompile("^(?:" + pattern + ")$").MatchString(v)
	case "!~":
		return !regexp.MustCompile("^(?:" + pattern + ")$").MatchString(v)
	}
	panic("refmodel: unknown matcher op " + op)
}

var byteUnits = map[string]float64{
	"b": 1, "kb": 1e3, "mb": 1e6, "gb": 1e9, "tb": 1e12, "pb": 1e15,
	"kib": 1 << 10, "mib": 1 << 20, "gib": 1 << 30, "tib": 1 << 40, "pib": 1 << 50,
}

var bytesRe = regexp.MustCompile(`^([0-9]+(?:\.[0-9]+)?)\s*([A-Za-z]*)$`)

// ParseBytes parses a byte size written with the units of the alphabet (b, kb, kib, ... case-insensitive).
func ParseBytes(s string) (float64, bool) {
	m := bytesRe.FindStringSubmatch(strings.TrimSpace(s))
	if m == nil {
		return 0, false
	}
	n, err := strconv.ParseFloat(m[1], 64)
	if err != nil {
		return 0, false
	}
	u := strings.ToLower(m[2])
	if u == "" {
		return float64(uint64(n)), true
	}
	f, ok := byteUnits[u]
	if !ok {
		return 0, false
	}
	return float64(uint64(n * f)), true
}

var goDurUnits = map[string]float64{"ns": 1e-9, "us": 1e-6, "µs": 1e-6, "ms": 1e-3, "s": 1, "m": 60, "h": 3600}

var goDurRe = regexp.MustCompile(`([0-9]+(?:\.[0-9]+)?)(ns|us|µs|ms|s|m|h)`)

// ParseGoDuration parses a Go-style duration (the notation of label values) into seconds.
func ParseGoDuration(s string) (float64, bool) {
	neg := false
	if strings.HasPrefix(s, "-") {
		neg, s = true, s[1:]
	}
	if s == "" {
		return 0, false
	}
	if s == "0" {
		return 0, true
	}
	rest := s
	total := 0.0
	for rest != "" {
		loc := goDurRe.FindStringSubmatchIndex(rest)
		if loc == nil || loc[0] != 0 {
			return 0, false
		}
		n, _ := strconv.ParseFloat(rest[loc[2]:loc[3]], 64)
		total += n * goDurUnits[rest[loc[4]:loc[5]]]
		rest = rest[loc[1]:]
	}
	if neg {
		total = -total
	}
	return total, true
}
