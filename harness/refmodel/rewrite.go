//go:build verif

package refmodel

import (
	"regexp"
	"strconv"
	"strings"
)

// TPart is one part of a template of the alphabet.
type TPart struct {
	Lit     string // literal text
	Label   string // {{.label}}
	Upper   string // {{ .label | ToUpper }}
	Line    bool   // {{__line__}}
	TSNanos bool   // {{__timestamp__ | unixEpochNanos}}
	Fail    bool   // a call that always fails at execution time
	Div     string // {{ div 7 (int .label) }}: fails (division by zero) when the label is missing, empty or 0
	// Repl: {{ regexReplaceAll "re" .label "repl" }} (Literal: regexReplaceAllLiteral, the replacement taken as it is)
	Repl *ReplPart
	// Align: {{ alignLeft N .label }} / {{ alignRight N .label }}: the value cut or padded to N characters
	Align *AlignPart
}

// AlignPart is a width adjustment of a label's value, counted in characters (runes).
type AlignPart struct {
	Right bool
	N     int
	Label string
}

// ReplPart is a regular-expression replacement over a label's value.
type ReplPart struct {
	Re, Label, With string
	Literal         bool
}

// Template is a template restricted to the alphabet.
type Template []TPart

// Source prints the Go template.
func (t Template) Source() string {
	var sb strings.Builder
	for _, p := range t {
		switch {
		case p.Label != "":
			sb.WriteString("{{." + p.Label + "}}")
		case p.Upper != "":
			sb.WriteString("{{ ." + p.Upper + " | ToUpper }}")
		case p.Line:
			sb.WriteString("{{__line__}}")
		case p.TSNanos:
			sb.WriteString("{{__timestamp__ | unixEpochNanos}}")
		case p.Fail:
			sb.WriteString(`{{ regexReplaceAll "(" "x" "y" }}`)
		case p.Div != "":
			sb.WriteString("{{ div 7 (int ." + p.Div + ") }}")
		case p.Align != nil:
			fn := "alignLeft"
			if p.Align.Right {
				fn = "alignRight"
			}
			sb.WriteString("{{ " + fn + " " + strconv.Itoa(p.Align.N) + " ." + p.Align.Label + " }}")
		case p.Repl != nil:
			fn := "regexReplaceAll"
			if p.Repl.Literal {
				fn = "regexReplaceAllLiteral"
			}
			sb.WriteString("{{ " + fn + " " + strconv.Quote(p.Repl.Re) + " ." + p.Repl.Label + " " + strconv.Quote(p.Repl.With) + " }}")
		default:
			sb.WriteString(p.Lit)
		}
	}
	return sb.String()
}

// Expand executes the template; ok=false when it fails.
func (t Template) Expand(e *Entry) (string, bool) {
	var sb strings.Builder
	for _, p := range t {
		switch {
		case p.Label != "":
			sb.WriteString(e.Labels[p.Label]) // missing label -> empty
		case p.Upper != "":
			sb.WriteString(strings.ToUpper(e.Labels[p.Upper]))
		case p.Line:
			sb.WriteString(e.Line)
		case p.TSNanos:
			sb.WriteString(strconv.FormatInt(e.TS, 10))
		case p.Fail:
			return "", false
		case p.Div != "":
			n, err := strconv.Atoi(e.Labels[p.Div])
			if err != nil || n == 0 {
				return "", false
			}
			sb.WriteString(strconv.Itoa(7 / n))
		case p.Align != nil:
			rs := []rune(e.Labels[p.Align.Label])
			n := p.Align.N
			switch {
			case n < 0:
			case len(rs) > n && p.Align.Right:
				rs = rs[len(rs)-n:]
			case len(rs) > n:
				rs = rs[:n]
			}
			pad := ""
			if n > len(rs) {
				pad = strings.Repeat(" ", n-len(rs))
			}
			if p.Align.Right {
				sb.WriteString(pad + string(rs))
			} else {
				sb.WriteString(string(rs) + pad)
			}
		case p.Repl != nil:
			r := re(p.Repl.Re)
			if p.Repl.Literal {
				sb.WriteString(r.ReplaceAllLiteralString(e.Labels[p.Repl.Label], p.Repl.With))
			} else {
				sb.WriteString(r.ReplaceAllString(e.Labels[p.Repl.Label], p.Repl.With))
			}
		default:
			sb.WriteString(p.Lit)
		}
	}
	return sb.String(), true
}

// LineFormat is `| line_format "tmpl"`.
type LineFormat struct{ T Template }

// Text implements Stage.
func (s *LineFormat) Text() string { return "| line_format " + strconv.Quote(s.T.Source()) }

// Apply implements Stage: a failing template leaves the line unchanged and flags __error__.
func (s *LineFormat) Apply(e *Entry, _ *QueryState) bool {
	out, ok := s.T.Expand(e)
	if !ok {
		setError(e.Labels, "TemplateFormatErr")
		return true
	}
	e.Line = out
	return true
}

// LFItem is one assignment of a label_format stage: dst=src (rename) or dst="template".
type LFItem struct {
	Dst string
	Src string   // rename when non-empty
	T   Template // template otherwise
}

// LabelFormat is `| label_format a=b, c="tmpl"`.
type LabelFormat struct{ Items []LFItem }

// Text implements Stage.
func (s *LabelFormat) Text() string {
	var parts []string
	for _, it := range s.Items {
		if it.Src != "" {
			parts = append(parts, it.Dst+"="+it.Src)
		} else {
			parts = append(parts, it.Dst+"="+strconv.Quote(it.T.Source()))
		}
	}
	return "| label_format " + strings.Join(parts, ", ")
}

// Apply implements Stage: dst=src renames label src to dst; dst="tmpl" sets dst to the expansion.
func (s *LabelFormat) Apply(e *Entry, _ *QueryState) bool {
	for _, it := range s.Items {
		if it.Src != "" {
			if v, ok := e.Labels[it.Src]; ok {
				e.Labels[it.Dst] = v
				delete(e.Labels, it.Src)
			}
			continue
		}
		out, ok := it.T.Expand(e)
		if !ok {
			setError(e.Labels, "TemplateFormatErr")
			continue
		}
		e.Labels[it.Dst] = out
	}
	return true
}

// DKItem is a name or a name with a value matcher.
type DKItem struct {
	Label string
	Op    string // "" = plain name
	Value string
}

func (it DKItem) text() string {
	if it.Op == "" {
		return it.Label
	}
	return it.Label + it.Op + strconv.Quote(it.Value)
}

func (it DKItem) selects(l Labels) bool {
	v, ok := l[it.Label]
	if !ok {
		return false
	}
	if it.Op == "" {
		return true
	}
	return MatchString(v, it.Op, it.Value)
}

// Drop is `| drop a, b="v"`.
type Drop struct{ Items []DKItem }

// Text implements Stage.
func (s *Drop) Text() string {
	var p []string
	for _, it := range s.Items {
		p = append(p, it.text())
	}
	return "| drop " + strings.Join(p, ", ")
}

// Apply implements Stage.
func (s *Drop) Apply(e *Entry, _ *QueryState) bool {
	for _, it := range s.Items {
		if it.selects(e.Labels) {
			delete(e.Labels, it.Label)
		}
	}
	return true
}

// Keep is `| keep a, b="v"`.
type Keep struct{ Items []DKItem }

// Text implements Stage.
func (s *Keep) Text() string {
	var p []string
	for _, it := range s.Items {
		p = append(p, it.text())
	}
	return "| keep " + strings.Join(p, ", ")
}

// Apply implements Stage.
func (s *Keep) Apply(e *Entry, _ *QueryState) bool {
	keep := map[string]bool{}
	for _, it := range s.Items {
		if it.selects(e.Labels) {
			keep[it.Label] = true
		}
	}
	for k := range e.Labels {
		if !keep[k] {
			delete(e.Labels, k)
		}
	}
	return true
}

// Decolorize is `| decolorize`.
type Decolorize struct{}

// Text implements Stage.
func (s *Decolorize) Text() string { return "| decolorize" }

// A colour sequence is CSI <parameters> m, where CSI is ESC [ or its single-character form U+009B (ECMA-48).
var sgr = regexp.MustCompile("(?:\x1b\\[|\u009b)[0-9;]*m")

// Apply implements Stage: removes the ANSI colour (SGR) sequences and nothing else.
func (s *Decolorize) Apply(e *Entry, _ *QueryState) bool {
	e.Line = sgr.ReplaceAllString(e.Line, "")
	return true
}
