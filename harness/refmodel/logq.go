//go:build verif

package refmodel

import (
	"bytes"
	"encoding/json"
	"fmt"
	"net/netip"
	"regexp"
	"sort"
	"strconv"
	"strings"
	"unicode/utf8"

	"github.com/tdakkota/docker-logql/internal/zzverif/mockq"
)

// Entry is one log entry travelling through the reference pipeline.
type Entry struct {
	TS     int64
	Line   string
	Labels Labels
}

// Stage is one pipeline stage of the generator's own query tree.
type Stage interface {
	Text() string
	// Apply transforms e; keep=false drops it. st is the per-query state of stateful stages.
	Apply(e *Entry, st *QueryState) (keep bool)
}

// QueryState is the state one query evaluation keeps across entries (distinct).
type QueryState struct {
	seen map[string]map[string]bool
	// Pos is the index of the stage being applied (every stage instance has its own state).
	Pos int
}

// ErrorLabel / ErrorDetails are LogQL's error labels.
const (
	ErrorLabel   = "__error__"
	ErrorDetails = "__error_details__"
)

func setError(l Labels, what string) {
	if _, ok := l[ErrorLabel]; ok {
		return
	}
	l[ErrorLabel] = what
}

var reCache = map[string]*regexp.Regexp{}

func re(pattern string) *regexp.Regexp {
	r, ok := reCache[pattern]
	if !ok {
		r = regexp.MustCompile(pattern)
		reCache[pattern] = r
	}
	return r
}

// ---------------------------------------------------------------------------------------------
// Line filters

// LineFilter is |= != |~ !~ with a string, or |= / != with ip().
type LineFilter struct {
	Op    string // "|=", "!=", "|~", "!~"
	Value string
	IP    bool
}

// Text implements Stage.
func (f *LineFilter) Text() string {
	if f.IP {
		return f.Op + " ip(" + strconv.Quote(f.Value) + ")"
	}
	return f.Op + " " + strconv.Quote(f.Value)
}

// Holds evaluates the filter on a line.
func (f *LineFilter) Holds(line string) bool {
	if f.IP {
		has := lineHasIP(line, f.Value)
		if f.Op == "!=" {
			return !has // the negation is the complement
		}
		return has
	}
	switch f.Op {
	case "|=":
		return strings.Contains(line, f.Value)
	case "!=":
		return !strings.Contains(line, f.Value)
	case "|~":
		return re(f.Value).MatchString(line)
	case "!~":
		return !re(f.Value).MatchString(line)
	}
	panic("refmodel: line filter op " + f.Op)
}

// Apply implements Stage.
func (f *LineFilter) Apply(e *Entry, _ *QueryState) bool { return f.Holds(e.Line) }

// IPMatches tells whether addr satisfies an ip() pattern (single address, a-b range, CIDR).
func IPMatches(pattern string, addr netip.Addr) bool {
	switch {
	case strings.Contains(pattern, "-"):
		lo, hi, _ := strings.Cut(pattern, "-")
		a, err1 := netip.ParseAddr(strings.TrimSpace(lo))
		b, err2 := netip.ParseAddr(strings.TrimSpace(hi))
		if err1 != nil || err2 != nil {
			panic("refmodel: bad ip range in alphabet: " + pattern)
		}
		return a.Compare(addr) <= 0 && addr.Compare(b) <= 0
	case strings.Contains(pattern, "/"):
		p, err := netip.ParsePrefix(pattern)
		if err != nil {
			panic("refmodel: bad cidr in alphabet: " + pattern)
		}
		return p.Contains(addr)
	}
	a, err := netip.ParseAddr(pattern)
	if err != nil {
		panic("refmodel: bad ip in alphabet: " + pattern)
	}
	return a == addr
}

var ipv4Re = regexp.MustCompile(`[0-9]+\.[0-9]+\.[0-9]+\.[0-9]+`)

// lineHasIP: IPv4 addresses are found anywhere in the line (maximal dotted-decimal runs), IPv6 addresses
// as whole space-delimited words (that is how the alphabets write them).
func lineHasIP(line, pattern string) bool {
	for _, w := range ipv4Re.FindAllString(line, -1) {
		if a, err := netip.ParseAddr(w); err == nil && IPMatches(pattern, a) {
			return true
		}
	}
	for _, w := range strings.Fields(line) {
		if !strings.Contains(w, ":") {
			continue
		}
		if a, err := netip.ParseAddr(w); err == nil && IPMatches(pattern, a) {
			return true
		}
	}
	return false
}

// ---------------------------------------------------------------------------------------------
// Label predicates

// Pred is a label filter predicate.
type Pred interface {
	Text() string
	// Eval returns whether the entry is kept; it may flag __error__.
	Eval(l Labels) bool
}

// PStr is label =, !=, =~, !~ "string".
type PStr struct{ Label, Op, Value string }

// Text implements Pred.
func (p *PStr) Text() string { return p.Label + p.Op + strconv.Quote(p.Value) }

// Eval implements Pred.
func (p *PStr) Eval(l Labels) bool {
	v := l[p.Label]
	switch p.Op {
	case "=":
		return v == p.Value
	case "!=":
		return v != p.Value
	case "=~":
		return re("^(?:" + p.Value + ")$").MatchString(v)
	case "!~":
		return !re("^(?:" + p.Value + ")$").MatchString(v)
	}
	panic("refmodel: matcher op " + p.Op)
}

// PNum is a number / duration / bytes comparison. Lit is the literal as written, Kind its type.
type PNum struct {
	Label, Op string
	Kind      string // number, duration, bytes
	Lit       string
}

// Text implements Pred.
func (p *PNum) Text() string { return p.Label + " " + p.Op + " " + p.Lit }

func cmpFloat(op string, a, b float64) bool {
	switch op {
	case "==":
		return a == b
	case "!=":
		return a != b
	case ">":
		return a > b
	case ">=":
		return a >= b
	case "<":
		return a < b
	case "<=":
		return a <= b
	}
	panic("refmodel: comparison " + op)
}

// Eval implements Pred: missing label -> dropped; unparsable value -> kept and flagged.
func (p *PNum) Eval(l Labels) bool {
	v, ok := l[p.Label]
	if !ok {
		return false
	}
	var a, b float64
	var okA, okB bool
	switch p.Kind {
	case "number":
		f, err := strconv.ParseFloat(v, 64)
		a, okA = f, err == nil
		g, err := strconv.ParseFloat(p.Lit, 64)
		b, okB = g, err == nil
	case "duration":
		a, okA = ParseGoDuration(v)
		b, okB = ParsePromDuration(p.Lit)
	case "bytes":
		a, okA = ParseBytes(v)
		b, okB = ParseBytes(p.Lit)
	}
	if !okB {
		panic("refmodel: bad literal in alphabet: " + p.Lit)
	}
	if !okA {
		setError(l, "LabelFilterErr")
		return true
	}
	return cmpFloat(p.Op, a, b)
}

// PIP is label == / != ip("pattern").
type PIP struct{ Label, Op, Value string }

// Text implements Pred.
func (p *PIP) Text() string { return p.Label + " " + p.Op + " ip(" + strconv.Quote(p.Value) + ")" }

// Eval implements Pred.
func (p *PIP) Eval(l Labels) bool {
	v, ok := l[p.Label]
	if !ok {
		return false
	}
	a, err := netip.ParseAddr(v)
	if err != nil {
		setError(l, "LabelFilterErr")
		return true
	}
	m := IPMatches(p.Value, a)
	if p.Op == "!=" {
		return !m
	}
	return m
}

// PBin is and / or; Sep is how the conjunction was written ("and", ",", " ", "or").
type PBin struct {
	Sep  string
	L, R Pred
}

// Text implements Pred (operands parenthesised when they are themselves binary).
func (p *PBin) Text() string {
	w := func(x Pred) string {
		if _, ok := x.(*PBin); ok {
			return "(" + x.Text() + ")"
		}
		return x.Text()
	}
	sep := " " + p.Sep + " "
	if p.Sep == "," {
		sep = ", "
	}
	if p.Sep == " " {
		sep = " "
	}
	return w(p.L) + sep + w(p.R)
}

// Eval implements Pred.
func (p *PBin) Eval(l Labels) bool {
	if p.Sep == "or" {
		// both sides see the entry; an entry is kept when either keeps it
		a := p.L.Eval(l)
		if a {
			return true
		}
		return p.R.Eval(l)
	}
	if !p.L.Eval(l) {
		return false
	}
	return p.R.Eval(l)
}

// LabelFilter is `| pred`.
type LabelFilter struct{ P Pred }

// Text implements Stage.
func (f *LabelFilter) Text() string { return "| " + f.P.Text() }

// Apply implements Stage.
func (f *LabelFilter) Apply(e *Entry, _ *QueryState) bool { return f.P.Eval(e.Labels) }

// ---------------------------------------------------------------------------------------------
// Parsers

// KeyToLabel is the sanitiser specification (see C20).
func KeyToLabel(key string) string {
	var sb strings.Builder
	for i := 0; i < len(key); {
		r, w := utf8.DecodeRuneInString(key[i:])
		valid := w == 1 && (r == '_' || (r >= 'a' && r <= 'z') || (r >= 'A' && r <= 'Z') || (r >= '0' && r <= '9'))
		if i == 0 && w == 1 && r >= '0' && r <= '9' {
			sb.WriteByte('_')
		}
		if valid {
			sb.WriteByte(byte(r))
		} else {
			sb.WriteByte('_')
		}
		i += w
	}
	return sb.String()
}

// JSONField is one extracted field: several renderings may be acceptable (numbers), and nested
// values are not compared (Opaque).
type JSONField struct {
	Accept []string
	Opaque bool
	Absent bool // null: the field may be absent or empty
}

func jsonScalar(v any) JSONField {
	switch x := v.(type) {
	case string:
		return JSONField{Accept: []string{x}}
	case json.Number:
		acc := []string{x.String()}
		if _, err := strconv.ParseInt(x.String(), 10, 64); err == nil {
			// an integer that fits 64 bits is exposed digit for digit (a detour through float64 loses the low
			// digits above 2^53)
			return JSONField{Accept: acc}
		}
		if f, err := x.Float64(); err == nil {
			acc = append(acc, strconv.FormatFloat(f, 'f', -1, 64), strconv.FormatFloat(f, 'g', -1, 64))
		}
		return JSONField{Accept: acc}
	case bool:
		return JSONField{Accept: []string{strconv.FormatBool(x)}}
	case nil:
		return JSONField{Absent: true, Accept: []string{""}}
	default:
		return JSONField{Opaque: true}
	}
}

// DecodeJSONObject decodes a well-formed object line (written by the generator) preserving key order.
func DecodeJSONObject(line string) (keys []string, vals []any, ok bool) {
	dec := json.NewDecoder(bytes.NewReader([]byte(line)))
	dec.UseNumber()
	tok, err := dec.Token()
	if err != nil || tok != json.Delim('{') {
		return nil, nil, false
	}
	for dec.More() {
		kt, err := dec.Token()
		if err != nil {
			return nil, nil, false
		}
		k, isStr := kt.(string)
		if !isStr {
			return nil, nil, false
		}
		var v any
		if err := dec.Decode(&v); err != nil {
			return nil, nil, false
		}
		keys = append(keys, k)
		vals = append(vals, v)
	}
	if _, err := dec.Token(); err != nil {
		return nil, nil, false
	}
	if dec.More() {
		return nil, nil, false
	}
	// nothing but whitespace may follow
	rest, _ := ioReadAll(dec)
	if strings.TrimSpace(rest) != "" {
		return nil, nil, false
	}
	return keys, vals, true
}

func ioReadAll(dec *json.Decoder) (string, error) {
	var sb strings.Builder
	buf := make([]byte, 64)
	r := dec.Buffered()
	for {
		n, err := r.Read(buf)
		sb.Write(buf[:n])
		if err != nil {
			return sb.String(), nil
		}
	}
}

// Expectation of label values that tolerate several renderings.
type LabelExpect struct {
	// Exact labels.
	Exact Labels
	// Flexible: label -> acceptable renderings (any of), or opaque (present, any value), or absent-or-empty.
	Flex map[string]JSONField
	// ErrorFlag: __error__ must be present (true) / absent (false); nil-able via HasErrorRule.
	MustError bool
	// MayError: __error__ may or may not be present (contested cases).
	MayError bool
}

// JSONStage is `| json`, `| json a, b`, `| json x="expr"`.
type JSONStage struct {
	Labels []string
	Exprs  [][2]string // label, expression
}

// Text implements Stage.
func (s *JSONStage) Text() string {
	var parts []string
	for _, l := range s.Labels {
		parts = append(parts, l)
	}
	for _, e := range s.Exprs {
		parts = append(parts, e[0]+"="+strconv.Quote(e[1]))
	}
	if len(parts) == 0 {
		return "| json"
	}
	return "| json " + strings.Join(parts, ", ")
}

// jsonPath parses the subset of path expressions of the alphabet: a, a.b, a[0], ["a.b"], a["b"].
func jsonPath(expr string) []any {
	var out []any
	i := 0
	for i < len(expr) {
		switch {
		case expr[i] == '.':
			i++
		case expr[i] == '[':
			j := strings.IndexByte(expr[i:], ']')
			inner := expr[i+1 : i+j]
			if strings.HasPrefix(inner, `"`) {
				s, err := strconv.Unquote(inner)
				if err != nil {
					panic("refmodel: bad path " + expr)
				}
				out = append(out, s)
			} else {
				n, err := strconv.Atoi(inner)
				if err != nil {
					panic("refmodel: bad path " + expr)
				}
				out = append(out, n)
			}
			i += j + 1
		default:
			j := i
			for j < len(expr) && expr[j] != '.' && expr[j] != '[' {
				j++
			}
			out = append(out, expr[i:j])
			i = j
		}
	}
	return out
}

func lookupPath(keys []string, vals []any, path []any) (any, bool) {
	if len(path) == 0 {
		return nil, false
	}
	k, ok := path[0].(string)
	if !ok {
		return nil, false
	}
	var cur any
	found := false
	for i := range keys { // last duplicate wins
		if keys[i] == k {
			cur, found = vals[i], true
		}
	}
	if !found {
		return nil, false
	}
	for _, p := range path[1:] {
		switch x := p.(type) {
		case string:
			m, ok := cur.(map[string]any)
			if !ok {
				return nil, false
			}
			cur, ok = m[x]
			if !ok {
				return nil, false
			}
		case int:
			a, ok := cur.([]any)
			if !ok || x >= len(a) {
				return nil, false
			}
			cur = a[x]
		}
	}
	return cur, true
}

// Apply implements Stage for well-formed or malformed lines: labels are set into e.Labels for exact
// values; contested renderings are resolved by the caller through ApplyExpect.
func (s *JSONStage) Apply(e *Entry, _ *QueryState) bool {
	exp := s.Expect(e.Line)
	for k, v := range exp.Exact {
		e.Labels[k] = v
	}
	for k, f := range exp.Flex {
		if f.Opaque || f.Absent {
			continue
		}
		e.Labels[k] = f.Accept[0]
	}
	if exp.MustError {
		setError(e.Labels, "JSONParserErr")
	}
	return true
}

// Expect tells which labels the stage must set for line.
func (s *JSONStage) Expect(line string) LabelExpect {
	exp := LabelExpect{Exact: Labels{}, Flex: map[string]JSONField{}}
	keys, vals, ok := DecodeJSONObject(line)
	if !ok {
		exp.MustError = true
		return exp
	}
	put := func(label string, v any) {
		f := jsonScalar(v)
		if len(f.Accept) == 1 && !f.Opaque && !f.Absent {
			exp.Exact[label] = f.Accept[0]
			delete(exp.Flex, label)
			return
		}
		delete(exp.Exact, label)
		exp.Flex[label] = f
	}
	switch {
	case len(s.Exprs) > 0:
		for _, l := range s.Labels {
			if v, ok := lookupPath(keys, vals, []any{l}); ok {
				put(l, v)
			}
		}
		for _, ex := range s.Exprs {
			if v, ok := lookupPath(keys, vals, jsonPath(ex[1])); ok {
				put(ex[0], v)
			}
		}
	case len(s.Labels) > 0:
		want := map[string]bool{}
		for _, l := range s.Labels {
			want[l] = true
		}
		for i, k := range keys {
			if want[k] {
				put(k, vals[i])
			}
		}
	default:
		for i, k := range keys {
			put(KeyToLabel(k), vals[i])
		}
	}
	return exp
}

// LogfmtStage is `| logfmt`, `| logfmt a, b`, `| logfmt x="key"`.
type LogfmtStage struct {
	Labels []string
	Exprs  [][2]string
}

// Text implements Stage.
func (s *LogfmtStage) Text() string {
	var parts []string
	parts = append(parts, s.Labels...)
	for _, e := range s.Exprs {
		parts = append(parts, e[0]+"="+strconv.Quote(e[1]))
	}
	if len(parts) == 0 {
		return "| logfmt"
	}
	return "| logfmt " + strings.Join(parts, ", ")
}

// ParseLogfmt is a reference logfmt reader for the alphabet: space separated key=value, bare keys,
// double-quoted values with Go escapes. ok=false for malformed input (unterminated quote, stray quote).
// lfSep: pairs are separated by blanks, tabs and line breaks (a record may span several physical lines).
func lfSep(c byte) bool { return c <= ' ' } // (go-logfmt, which Loki uses as well: every byte up to the blank separates)

func ParseLogfmt(line string) (kvs [][2]string, ok bool) {
	i := 0
	n := len(line)
	for i < n {
		for i < n && lfSep(line[i]) {
			i++
		}
		if i >= n {
			break
		}
		j := i
		for j < n && line[j] != '=' && !lfSep(line[j]) {
			if line[j] == '"' {
				return kvs, false
			}
			j++
		}
		key := line[i:j]
		if key == "" || strings.ContainsRune(key, utf8.RuneError) { // (invalid UTF-8, or U+FFFD itself)
			return kvs, false
		}
		if j >= n || lfSep(line[j]) {
			kvs = append(kvs, [2]string{key, ""})
			i = j
			continue
		}
		j++ // '='
		if j < n && line[j] == '"' {
			k := j + 1
			for k < n && line[k] != '"' {
				if line[k] == '\\' {
					k++
				}
				k++
			}
			if k >= n {
				return kvs, false
			}
			v, err := strconv.Unquote(line[j : k+1])
			if err != nil {
				return kvs, false
			}
			kvs = append(kvs, [2]string{key, v})
			i = k + 1
			if i < n && !lfSep(line[i]) {
				return kvs, false
			}
			continue
		}
		k := j
		for k < n && !lfSep(line[k]) {
			if line[k] == '"' || line[k] == '=' {
				return kvs, false
			}
			k++
		}
		kvs = append(kvs, [2]string{key, line[j:k]})
		i = k
	}
	return kvs, true
}

// Apply implements Stage.
func (s *LogfmtStage) Apply(e *Entry, _ *QueryState) bool {
	kvs, ok := ParseLogfmt(e.Line)
	sel := map[string]string{} // key -> label
	for _, l := range s.Labels {
		sel[l] = l
	}
	for _, ex := range s.Exprs {
		sel[ex[1]] = ex[0]
	}
	for _, kv := range kvs {
		if len(sel) == 0 {
			e.Labels[kv[0]] = kv[1]
		} else if l, ok := sel[kv[0]]; ok {
			e.Labels[l] = kv[1]
		}
	}
	if !ok {
		setError(e.Labels, "LogfmtParserErr")
	}
	return true
}

// RegexpStage is `| regexp "..."` with named captures.
type RegexpStage struct{ Pattern string }

// Text implements Stage.
func (s *RegexpStage) Text() string { return "| regexp " + strconv.Quote(s.Pattern) }

// Apply implements Stage.
func (s *RegexpStage) Apply(e *Entry, _ *QueryState) bool {
	r := re(s.Pattern)
	m := r.FindStringSubmatch(e.Line)
	if m == nil {
		return true
	}
	for i, name := range r.SubexpNames() {
		if name != "" {
			e.Labels[name] = m[i]
		}
	}
	return true
}

// PatternStage is `| pattern "<a> <b>"`; the reference handles patterns whose literals are the
// delimiters of the alphabet (captured values never contain the following literal).
type PatternStage struct{ Pattern string }

// Text implements Stage.
func (s *PatternStage) Text() string { return "| pattern " + strconv.Quote(s.Pattern) }

var patPart = regexp.MustCompile(`<[_A-Za-z][_A-Za-z0-9]*>`)

// Apply implements Stage.
func (s *PatternStage) Apply(e *Entry, _ *QueryState) bool {
	// translate to an anchored non-greedy regexp: literals quoted, captures lazy
	idx := patPart.FindAllStringIndex(s.Pattern, -1)
	var sb strings.Builder
	sb.WriteString("^")
	pos := 0
	var names []string
	for k, loc := range idx {
		sb.WriteString(regexp.QuoteMeta(s.Pattern[pos:loc[0]]))
		name := s.Pattern[loc[0]+1 : loc[1]-1]
		names = append(names, name)
		if k == len(idx)-1 && loc[1] == len(s.Pattern) {
			sb.WriteString("((?s:.*))")
		} else {
			sb.WriteString("((?s:.*?))")
		}
		pos = loc[1]
	}
	sb.WriteString(regexp.QuoteMeta(s.Pattern[pos:]))
	m := re(sb.String()).FindStringSubmatch(e.Line)
	if m == nil {
		return true // no match: nothing is required (partial captures are not specified)
	}
	for i, name := range names {
		if name != "_" {
			e.Labels[name] = m[i+1]
		}
	}
	return true
}

// UnpackStage is `| unpack`.
type UnpackStage struct{}

// Text implements Stage.
func (s *UnpackStage) Text() string { return "| unpack" }

// Apply implements Stage.
func (s *UnpackStage) Apply(e *Entry, _ *QueryState) bool {
	keys, vals, ok := DecodeJSONObject(e.Line)
	if !ok {
		setError(e.Labels, "JSONParserErr")
		return true
	}
	line := e.Line
	for i, k := range keys {
		sv, isStr := vals[i].(string)
		if !isStr {
			continue
		}
		if k == "_entry" {
			line = sv
			continue
		}
		e.Labels[k] = sv
	}
	e.Line = line
	return true
}

// ---------------------------------------------------------------------------------------------
// distinct

// Distinct is `| distinct a, b`.
type Distinct struct{ Labels []string }

// Text implements Stage.
func (s *Distinct) Text() string { return "| distinct " + strings.Join(s.Labels, ", ") }

// Apply implements Stage: an entry is dropped when, for some listed label it carries, that value was already seen.
func (s *Distinct) Apply(e *Entry, st *QueryState) bool {
	if st.seen == nil {
		st.seen = map[string]map[string]bool{}
	}
	key := strconv.Itoa(st.Pos)
	if st.seen[key] == nil {
		st.seen[key] = map[string]bool{}
	}
	seen := st.seen[key]
	for _, l := range s.Labels {
		v, ok := e.Labels[l]
		if !ok {
			return true
		}
		k := l + "\x00" + v
		if seen[k] {
			return false
		}
		seen[k] = true
	}
	return true
}

// ---------------------------------------------------------------------------------------------
// Evaluation

// LogQuery is a log query of the generator's own tree.
type LogQuery struct {
	Sel    []Matcher
	Stages []Stage
}

// Text prints the query.
func (q *LogQuery) Text() string {
	parts := []string{SelText(q.Sel)}
	for _, s := range q.Stages {
		parts = append(parts, s.Text())
	}
	return strings.Join(parts, " ")
}

// OutEntry is one result entry with its final labels.
type OutEntry struct {
	TS     int64
	Line   string
	Labels Labels
}

// EvalLog evaluates q over data (time order, stable) with limit (<= 0: all).
func EvalLog(q *LogQuery, data []mockq.Rec, limit int) []OutEntry {
	recs := append([]mockq.Rec(nil), data...)
	sort.SliceStable(recs, func(i, j int) bool { return recs[i].TS < recs[j].TS })
	st := &QueryState{}
	var out []OutEntry
	for _, r := range recs {
		if limit > 0 && len(out) >= limit {
			break
		}
		labels := Labels(mockq.InitialLabels(r))
		if !matchSel(labels, q.Sel) {
			continue
		}
		e := &Entry{TS: r.TS, Line: r.Line, Labels: labels}
		keep := true
		for i, s := range q.Stages {
			st.Pos = i
			if !s.Apply(e, st) {
				keep = false
				break
			}
		}
		if keep {
			out = append(out, OutEntry{TS: e.TS, Line: e.Line, Labels: e.Labels})
		}
	}
	return out
}

// EntryKey is the (timestamp, line) identity used for multiset comparison.
func EntryKey(ts int64, line string) string { return fmt.Sprintf("%d|%q", ts, line) }

var promDurUnits = map[string]float64{"ms": 1e-3, "s": 1, "m": 60, "h": 3600, "d": 86400, "w": 7 * 86400, "y": 365 * 86400, "ns": 1e-9, "us": 1e-6, "µs": 1e-6}
var promDurRe = regexp.MustCompile(`([0-9]+(?:\.[0-9]+)?)(ms|ns|us|µs|s|m|h|d|w|y)`)

// ParsePromDuration parses a duration literal as written in a query (Prometheus or Go style) into seconds.
func ParsePromDuration(s string) (float64, bool) {
	rest := s
	total := 0.0
	if rest == "" {
		return 0, false
	}
	for rest != "" {
		loc := promDurRe.FindStringSubmatchIndex(rest)
		if loc == nil || loc[0] != 0 {
			return 0, false
		}
		n, _ := strconv.ParseFloat(rest[loc[2]:loc[3]], 64)
		total += n * promDurUnits[rest[loc[4]:loc[5]]]
		rest = rest[loc[1]:]
	}
	return total, true
}
