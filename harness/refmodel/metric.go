//go:build verif

// Package refmodel is the reference model: deliberately boring Go written against the statements of
// the properties and LogQL's documented semantics, not transliterated from the engine.
package refmodel

import (
	"fmt"
	"math"
	"sort"
	"strconv"
	"strings"

	"github.com/tdakkota/docker-logql/internal/zzverif/mockq"
)

// Labels is a label set.
type Labels map[string]string

// Key is the canonical text of a label set.
func (l Labels) Key() string {
	ks := make([]string, 0, len(l))
	for k := range l {
		ks = append(ks, k)
	}
	sort.Strings(ks)
	var sb strings.Builder
	sb.WriteByte('{')
	for i, k := range ks {
		if i > 0 {
			sb.WriteByte(',')
		}
		sb.WriteString(k + "=" + strconv.Quote(l[k]))
	}
	sb.WriteByte('}')
	return sb.String()
}

// Sample is one series value at one evaluation time.
type Sample struct {
	Labels Labels
	V      float64
}

// Value is a scalar or an instant vector.
type Value struct {
	IsScalar bool
	S        float64
	V        []Sample
	// Ambiguous is set when several answers are legitimate (ties at a topk boundary).
	Ambiguous bool
	// Ordered is set when the order of V is part of the answer (sort / sort_desc).
	Ordered bool
}

// Expr is a metric expression of the generator's own tree.
type Expr interface{ Text() string }

// Matcher is a selector matcher.
type Matcher struct{ Label, Op, Value string }

// Grouping is by(...) / without(...).
type Grouping struct {
	Without bool
	Labels  []string
}

func (g *Grouping) text() string {
	if g == nil {
		return ""
	}
	kw := "by"
	if g.Without {
		kw = "without"
	}
	return kw + " (" + strings.Join(g.Labels, ", ") + ")"
}

// RangeAgg is f(selector | unwrap [r] offset o).
type RangeAgg struct {
	Op       string
	Sel      []Matcher
	Stages   []Stage // pipeline between the selector and unwrap
	Unwrap   string  // label ("" = no unwrap)
	Conv     string  // "", bytes, duration, duration_seconds
	RangeNS  int64
	OffsetNS int64
	Param    *float64
	Grouping *Grouping
	// RangeText / OffsetText, when set, are the spellings of the range and the offset in the query text (they must
	// denote RangeNS / OffsetNS): a duration can be written in several ways.
	RangeText, OffsetText string
}

func durText(ns int64) string {
	if ns%1e9 == 0 {
		return strconv.FormatInt(ns/1e9, 10) + "s"
	}
	return strconv.FormatInt(ns/1e6, 10) + "ms"
}

// SelText prints a selector.
func SelText(ms []Matcher) string {
	var p []string
	for _, m := range ms {
		p = append(p, m.Label+m.Op+strconv.Quote(m.Value))
	}
	return "{" + strings.Join(p, ", ") + "}"
}

// Text implements Expr.
func (e *RangeAgg) Text() string {
	var sb strings.Builder
	sb.WriteString(e.Op + "(")
	if e.Param != nil {
		sb.WriteString(strconv.FormatFloat(*e.Param, 'f', -1, 64) + ", ")
	}
	sb.WriteString(SelText(e.Sel))
	for _, st := range e.Stages {
		sb.WriteString(" " + st.Text())
	}
	if e.Unwrap != "" {
		if e.Conv != "" {
			sb.WriteString(" | unwrap " + e.Conv + "(" + e.Unwrap + ")")
		} else {
			sb.WriteString(" | unwrap " + e.Unwrap)
		}
	}
	rt, ot := durText(e.RangeNS), durText(e.OffsetNS)
	if e.RangeText != "" {
		rt = e.RangeText
	}
	if e.OffsetText != "" {
		ot = e.OffsetText
	}
	sb.WriteString(" [" + rt + "]")
	if e.OffsetNS != 0 {
		sb.WriteString(" offset " + ot)
	}
	sb.WriteString(")")
	if e.Grouping != nil {
		sb.WriteString(" " + e.Grouping.text())
	}
	return sb.String()
}

// VecAgg is a vector aggregation.
type VecAgg struct {
	Op       string
	Param    *int
	Grouping *Grouping
	X        Expr
}

// Text implements Expr.
func (e *VecAgg) Text() string {
	s := e.Op
	if e.Grouping != nil {
		s += " " + e.Grouping.text() + " "
	}
	s += "("
	if e.Param != nil {
		s += strconv.Itoa(*e.Param) + ", "
	}
	return s + e.X.Text() + ")"
}

// Bin is a binary operation.
type Bin struct {
	Op   string
	L, R Expr
	// Bool: the comparison carries the `bool` modifier. Which of the two conventions (false = 0, false = dropped)
	// the modifier selects is not stated by the property: the model evaluates it like the plain form, under cv.
	Bool bool
	// Parens: that many redundant pairs of parentheses are written around each operand (no meaning).
	Parens int
}

// Text implements Expr (fully parenthesised operands unless atoms).
func (e *Bin) Text() string {
	l, r := wrap(e.L), wrap(e.R)
	// redundant pairs of parentheses around the operands that are not literals
	for k := 0; k < e.Parens; k++ {
		if _, lit := e.L.(*Lit); !lit {
			l = "(" + l + ")"
		}
		if _, lit := e.R.(*Lit); !lit {
			r = "(" + r + ")"
		}
	}
	if e.Bool {
		return l + " " + e.Op + " bool " + r
	}
	return l + " " + e.Op + " " + r
}

func wrap(e Expr) string {
	if _, ok := e.(*Bin); ok {
		return "(" + e.Text() + ")"
	}
	return e.Text()
}

// Lit is a scalar literal.
type Lit struct{ V float64 }

// Text implements Expr.
func (e *Lit) Text() string { return strconv.FormatFloat(e.V, 'f', -1, 64) }

// Vec is vector(v).
type Vec struct{ V float64 }

// Text implements Expr.
func (e *Vec) Text() string { return "vector(" + strconv.FormatFloat(e.V, 'f', -1, 64) + ")" }

// Convention collects the documented-but-contested choices the oracle accepts either way.
type Convention struct {
	// FalseIsZero: a comparison that does not hold yields 0 (true) or drops the series (false).
	FalseIsZero bool
}

// Precedence of a binary operator (higher binds tighter).
func Precedence(op string) int {
	switch op {
	case "or":
		return 1
	case "and", "unless":
		return 2
	case "==", "!=", ">", ">=", "<", "<=":
		return 3
	case "+", "-":
		return 4
	case "*", "/", "%":
		return 5
	case "^":
		return 6
	}
	return 0
}

// IsSetOp tells whether op is and/or/unless.
func IsSetOp(op string) bool { return op == "and" || op == "or" || op == "unless" }

// IsCmp tells whether op is a comparison.
func IsCmp(op string) bool { return Precedence(op) == 3 }

func arith(op string, a, b float64) float64 {
	switch op {
	case "+":
		return a + b
	case "-":
		return a - b
	case "*":
		return a * b
	case "/":
		if b == 0 {
			return math.NaN()
		}
		return a / b
	case "%":
		if b == 0 {
			return math.NaN()
		}
		return math.Mod(a, b)
	case "^":
		return math.Pow(a, b)
	}
	panic("refmodel: not arithmetic: " + op)
}

func cmpHolds(op string, a, b float64) bool {
	switch op {
	case "==":
		return a == b
	case "!=":
		return a != b
	case ">":
		return a > b
	case ">=":
		return a >= b
	case "<":
		return a < b
	case "<=":
		return a <= b
	}
	panic("refmodel: not a comparison: " + op)
}

// window returns the records of data inside [from, to] (closed), in timestamp order (stable).
func window(data []mockq.Rec, from, to int64) []mockq.Rec {
	var out []mockq.Rec
	for _, r := range data {
		if r.TS >= from && r.TS <= to {
			out = append(out, r)
		}
	}
	sort.SliceStable(out, func(i, j int) bool { return out[i].TS < out[j].TS })
	return out
}

func matchSel(labels map[string]string, sel []Matcher) bool {
	for _, m := range sel {
		if !MatchString(labels[m.Label], m.Op, m.Value) {
			return false
		}
	}
	return true
}

func group(l Labels, g *Grouping) Labels {
	out := Labels{}
	if g == nil {
		for k, v := range l {
			out[k] = v
		}
		return out
	}
	in := map[string]bool{}
	for _, n := range g.Labels {
		in[n] = true
	}
	for k, v := range l {
		if g.Without != in[k] {
			out[k] = v
		}
	}
	return out
}

func convert(conv, s string) (float64, bool) {
	switch conv {
	case "":
		f, err := strconv.ParseFloat(s, 64)
		return f, err == nil
	case "bytes":
		return ParseBytes(s)
	case "duration", "duration_seconds":
		d, ok := ParseGoDuration(s)
		return d, ok
	}
	return 0, false
}

// EvalAt evaluates e over data at evaluation time t (ns).
func EvalAt(e Expr, data []mockq.Rec, t int64, cv Convention) Value {
	switch e := e.(type) {
	case *Lit:
		return Value{IsScalar: true, S: e.V}
	case *Vec:
		return Value{V: []Sample{{Labels: Labels{}, V: e.V}}}
	case *RangeAgg:
		return evalRange(e, data, t)
	case *VecAgg:
		return evalVecAgg(e, EvalAt(e.X, data, t, cv))
	case *Bin:
		return evalBin(e.Op, EvalAt(e.L, data, t, cv), EvalAt(e.R, data, t, cv), cv)
	}
	panic(fmt.Sprintf("refmodel: unknown expr %T", e))
}

func evalRange(e *RangeAgg, data []mockq.Rec, t int64) Value {
	to := t - e.OffsetNS
	from := to - e.RangeNS
	type ser struct {
		labels Labels
		vals   []float64
	}
	var order []string
	series := map[string]*ser{}
	qs := &QueryState{}
	for _, r := range window(data, from, to) {
		labels := Labels(mockq.InitialLabels(r))
		if !matchSel(labels, e.Sel) {
			continue
		}
		line := r.Line // the line as the pipeline hands it on (what the bytes functions weigh)
		if len(e.Stages) > 0 {
			ent := &Entry{TS: r.TS, Line: r.Line, Labels: labels}
			keep := true
			for i, st := range e.Stages {
				qs.Pos = i
				if !st.Apply(ent, qs) {
					keep = false
					break
				}
			}
			if !keep {
				continue
			}
			labels = ent.Labels
			line = ent.Line
		}
		var v float64
		switch e.Op {
		case "count_over_time", "rate":
			v = 1
			if e.Unwrap != "" {
				s, ok := labels[e.Unwrap]
				if !ok {
					continue
				}
				f, ok := convert(e.Conv, s)
				if !ok {
					panic("refmodel: unconvertible sample in alphabet: " + s)
				}
				v = f
			}
		case "bytes_over_time", "bytes_rate":
			v = float64(len(line))
		default:
			s, ok := labels[e.Unwrap]
			if !ok {
				continue
			}
			f, ok := convert(e.Conv, s)
			if !ok {
				panic("refmodel: unconvertible sample in alphabet: " + s)
			}
			v = f
		}
		gl := group(labels, e.Grouping)
		k := gl.Key()
		s := series[k]
		if s == nil {
			s = &ser{labels: gl}
			series[k] = s
			order = append(order, k)
		}
		s.vals = append(s.vals, v)
	}
	var out []Sample
	secs := float64(e.RangeNS) / 1e9
	for _, k := range order {
		s := series[k]
		var v float64
		switch e.Op {
		case "count_over_time":
			v = float64(len(s.vals))
		case "rate":
			if e.Unwrap != "" {
				v = sum(s.vals) / secs
			} else {
				v = float64(len(s.vals)) / secs
			}
		case "bytes_over_time", "sum_over_time":
			v = sum(s.vals)
		case "bytes_rate":
			v = sum(s.vals) / secs
		case "avg_over_time":
			v = sum(s.vals) / float64(len(s.vals))
		case "min_over_time":
			v = s.vals[0]
			for _, x := range s.vals {
				v = math.Min(v, x)
			}
		case "max_over_time":
			v = s.vals[0]
			for _, x := range s.vals {
				v = math.Max(v, x)
			}
		case "stdvar_over_time":
			v = variance(s.vals)
		case "stddev_over_time":
			v = math.Sqrt(variance(s.vals))
		case "quantile_over_time":
			v = Quantile(*e.Param, s.vals)
		case "first_over_time":
			v = s.vals[0]
		case "last_over_time":
			v = s.vals[len(s.vals)-1]
		default:
			panic("refmodel: unknown range op " + e.Op)
		}
		out = append(out, Sample{Labels: s.labels, V: v})
	}
	return Value{V: out}
}

func sum(xs []float64) float64 {
	t := 0.0
	for _, x := range xs {
		t += x
	}
	return t
}

func variance(xs []float64) float64 {
	m := sum(xs) / float64(len(xs))
	t := 0.0
	for _, x := range xs {
		t += (x - m) * (x - m)
	}
	return t / float64(len(xs))
}

// Quantile is the documented linear-interpolation quantile.
func Quantile(q float64, xs []float64) float64 {
	if len(xs) == 0 || math.IsNaN(q) {
		return math.NaN()
	}
	if q < 0 {
		return math.Inf(-1)
	}
	if q > 1 {
		return math.Inf(1)
	}
	s := append([]float64(nil), xs...)
	sort.Float64s(s)
	rank := q * float64(len(s)-1)
	lo := math.Floor(rank)
	hi := math.Min(float64(len(s)-1), lo+1)
	w := rank - lo
	return s[int(lo)]*(1-w) + s[int(hi)]*w
}

func evalVecAgg(e *VecAgg, in Value) Value {
	if in.IsScalar {
		panic("refmodel: vector aggregation over scalar")
	}
	if in.Ambiguous {
		return Value{Ambiguous: true}
	}
	switch e.Op {
	case "sort", "sort_desc":
		out := append([]Sample(nil), in.V...)
		amb := false
		sort.SliceStable(out, func(i, j int) bool {
			if e.Op == "sort" {
				return out[i].V < out[j].V
			}
			return out[i].V > out[j].V
		})
		return Value{V: out, Ordered: true, Ambiguous: amb}
	}
	type grp struct {
		labels  Labels
		members []Sample
	}
	var order []string
	groups := map[string]*grp{}
	for _, s := range in.V {
		var gl Labels
		if e.Grouping == nil {
			gl = Labels{} // no clause: one group, empty label set
		} else {
			gl = group(s.Labels, e.Grouping)
		}
		k := gl.Key()
		g := groups[k]
		if g == nil {
			g = &grp{labels: gl}
			groups[k] = g
			order = append(order, k)
		}
		g.members = append(g.members, s)
	}
	var out []Sample
	amb := false
	for _, k := range order {
		g := groups[k]
		var vals []float64
		for _, m := range g.members {
			vals = append(vals, m.V)
		}
		switch e.Op {
		case "topk", "bottomk":
			ms := append([]Sample(nil), g.members...)
			sort.SliceStable(ms, func(i, j int) bool {
				if e.Op == "topk" {
					return ms[i].V > ms[j].V
				}
				return ms[i].V < ms[j].V
			})
			kk := *e.Param
			if kk < len(ms) {
				if ms[kk-1].V == ms[kk].V {
					amb = true
				}
				ms = ms[:kk]
			}
			out = append(out, ms...) // members keep their own labels
			continue
		}
		var v float64
		switch e.Op {
		case "sum":
			v = sum(vals)
		case "avg":
			v = sum(vals) / float64(len(vals))
		case "min":
			v = vals[0]
			for _, x := range vals {
				v = math.Min(v, x)
			}
		case "max":
			v = vals[0]
			for _, x := range vals {
				v = math.Max(v, x)
			}
		case "count":
			v = float64(len(vals))
		case "stdvar":
			v = variance(vals)
		case "stddev":
			v = math.Sqrt(variance(vals))
		default:
			panic("refmodel: unknown vector op " + e.Op)
		}
		out = append(out, Sample{Labels: g.labels, V: v})
	}
	return Value{V: out, Ambiguous: amb}
}

func evalBin(op string, l, r Value, cv Convention) Value {
	if l.Ambiguous || r.Ambiguous {
		return Value{Ambiguous: true}
	}
	one := func(a, b float64, labels Labels) (Sample, bool) {
		if IsCmp(op) {
			if cmpHolds(op, a, b) {
				return Sample{Labels: labels, V: 1}, true
			}
			return Sample{Labels: labels, V: 0}, cv.FalseIsZero
		}
		return Sample{Labels: labels, V: arith(op, a, b)}, true
	}
	switch {
	case l.IsScalar && r.IsScalar:
		if IsSetOp(op) {
			panic("refmodel: set operator between scalars")
		}
		if IsCmp(op) {
			if cmpHolds(op, l.S, r.S) {
				return Value{IsScalar: true, S: 1}
			}
			return Value{IsScalar: true, S: 0}
		}
		return Value{IsScalar: true, S: arith(op, l.S, r.S)}
	case l.IsScalar || r.IsScalar:
		if IsSetOp(op) {
			panic("refmodel: set operator with scalar")
		}
		var out []Sample
		vec := l
		if l.IsScalar {
			vec = r
		}
		for _, s := range vec.V {
			var res Sample
			var keep bool
			if l.IsScalar {
				res, keep = one(l.S, s.V, s.Labels)
			} else {
				res, keep = one(s.V, r.S, s.Labels)
			}
			if keep {
				out = append(out, res)
			}
		}
		return Value{V: out}
	}
	rk := map[string]Sample{}
	for _, s := range r.V {
		rk[s.Labels.Key()] = s
	}
	lk := map[string]Sample{}
	for _, s := range l.V {
		lk[s.Labels.Key()] = s
	}
	var out []Sample
	switch op {
	case "and":
		for _, s := range l.V {
			if _, ok := rk[s.Labels.Key()]; ok {
				out = append(out, s)
			}
		}
	case "unless":
		for _, s := range l.V {
			if _, ok := rk[s.Labels.Key()]; !ok {
				out = append(out, s)
			}
		}
	case "or":
		out = append(out, l.V...)
		for _, s := range r.V {
			if _, ok := lk[s.Labels.Key()]; !ok {
				out = append(out, s)
			}
		}
	default:
		for _, s := range l.V {
			o, ok := rk[s.Labels.Key()]
			if !ok {
				continue
			}
			if res, keep := one(s.V, o.V, s.Labels); keep {
				out = append(out, res)
			}
		}
	}
	return Value{V: out}
}

// FloatEq compares with relative tolerance 1e-9 (NaN equals NaN, infinities by sign).
func FloatEq(a, b float64) bool {
	if math.IsNaN(a) || math.IsNaN(b) {
		return math.IsNaN(a) && math.IsNaN(b)
	}
	if math.IsInf(a, 0) || math.IsInf(b, 0) {
		return a == b
	}
	if a == b {
		return true
	}
	d := math.Abs(a - b)
	return d <= 1e-9*math.Max(math.Abs(a), math.Abs(b)) || d <= 1e-12
}
