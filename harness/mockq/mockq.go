//go:build verif

// Package mockq is a mock logqlengine.Querier whose data, capabilities and behaviour are decided by
// the harness. Whatever the engine offloads (selector matchers, line filters) is evaluated here with
// the *reference* semantics over the record's initial label set.
package mockq

import (
	"context"
	"encoding/hex"
	"fmt"
	"regexp"
	"sort"
	"strings"
	"unicode/utf8"

	"go.opentelemetry.io/collector/pdata/pcommon"

	"github.com/tdakkota/docker-logql/internal/iterators"
	"github.com/tdakkota/docker-logql/internal/logql"
	"github.com/tdakkota/docker-logql/internal/logql/logqlengine"
	"github.com/tdakkota/docker-logql/internal/logstorage"
	"github.com/tdakkota/docker-logql/internal/otelstorage"
	"github.com/tdakkota/docker-logql/internal/zzverif/vsched"
)

// KV is one label (ordered lists keep the harness free of Go map iteration).
type KV struct {
	K string `json:"k"`
	V string `json:"v"`
}

// Rec is one log record of a data set.
type Rec struct {
	TS     int64  `json:"ts"` // nanoseconds
	Line   string `json:"line"`
	Labels []KV   `json:"labels,omitempty"` // resource attributes (stream labels)
	// Trace, Span: trace id (32 hex digits) and span id (16 hex digits) of the record; "" = none.
	Trace string `json:"trace,omitempty"`
	Span  string `json:"span,omitempty"`
}

func allZero(hexDigits string) bool { return strings.Trim(hexDigits, "0") == "" }

// Call records one SelectLogs call.
type Call struct {
	Start, End int64
	Labels     []logql.LabelMatcher
	Line       []logql.LineFilter
}

// Querier is the mock storage.
type Querier struct {
	Recs []Rec
	Caps logqlengine.QuerierCapabilities
	// TimeFilter: return only records with start <= ts <= end (what a storage does); otherwise everything.
	TimeFilter bool
	// FailSelect makes SelectLogs fail; FailAfter >= 0 makes the iterator fail after that many records.
	FailSelect error
	FailAfter  int
	FailErr    error

	Calls  []Call
	Opened int
	Closed int
}

// New returns a mock querier over recs (sorted by timestamp, stable).
func New(recs []Rec) *Querier {
	cp := append([]Rec(nil), recs...)
	sort.SliceStable(cp, func(i, j int) bool { return cp[i].TS < cp[j].TS })
	return &Querier{Recs: cp, TimeFilter: true, FailAfter: -1}
}

// NewUnsorted returns a mock querier that delivers recs in the given order (a storage whose records are not
// in time order, such as a container log with out-of-order timestamps).
func NewUnsorted(recs []Rec) *Querier {
	return &Querier{Recs: append([]Rec(nil), recs...), TimeFilter: true, FailAfter: -1}
}

// Capabilities implements logqlengine.Querier.
func (q *Querier) Capabilities() logqlengine.QuerierCapabilities { return q.Caps }

// InitialLabels is the specification of a record's initial label set (msg + attributes).
func InitialLabels(r Rec) map[string]string {
	m := map[string]string{}
	// an id that is set (not all zero) is a label, in lower-case hex
	if r.Trace != "" && !allZero(r.Trace) {
		m["trace_id"] = strings.ToLower(r.Trace)
	}
	if r.Span != "" && !allZero(r.Span) {
		m["span_id"] = strings.ToLower(r.Span)
	}
	if r.Line != "" {
		m["msg"] = r.Line
	}
	for _, kv := range r.Labels {
		m[RefKeyToLabel(kv.K)] = kv.V // attribute names become label names
	}
	return m
}

// RefKeyToLabel is the character-wise specification of the name sanitiser: every byte that is not an ASCII letter,
// digit or underscore (every invalid byte, every byte of a multi-byte character's encoding counted as one character)
// becomes an underscore, and a name cannot start with a digit.
func RefKeyToLabel(key string) string {
	var sb strings.Builder
	for i := 0; i < len(key); {
		r, w := utf8.DecodeRuneInString(key[i:])
		valid := w == 1 && (r == '_' || (r >= 'a' && r <= 'z') || (r >= 'A' && r <= 'Z') || (r >= '0' && r <= '9'))
		if i == 0 && w == 1 && r >= '0' && r <= '9' {
			sb.WriteByte('_')
		}
		if valid {
			sb.WriteByte(byte(r))
		} else {
			sb.WriteByte('_')
		}
		i += w
	}
	return sb.String()
}

// MatchLabel is the reference semantics of a selector matcher.
func MatchLabel(labels map[string]string, name string, op logql.BinOp, value string) bool {
	v := labels[name]
	switch op {
	case logql.OpEq:
		return v == value
	case logql.OpNotEq:
		return v != value
	case logql.OpRe:
		return regexp.MustCompile("^(?:" + value + ")$").MatchString(v)
	case logql.OpNotRe:
		return !regexp.MustCompile("^(?:" + value + ")$").MatchString(v)
	}
	return false
}

// MatchLine is the reference semantics of a (non-IP) line filter.
func MatchLine(line string, op logql.BinOp, value string) bool {
	switch op {
	case logql.OpEq:
		return strings.Contains(line, value)
	case logql.OpNotEq:
		return !strings.Contains(line, value)
	case logql.OpRe:
		return regexp.MustCompile(value).MatchString(line)
	case logql.OpNotRe:
		return !regexp.MustCompile(value).MatchString(line)
	}
	return false
}

// declared reads the capability bit directly (not through SupportedOps.Supports, which is code under test): the
// operators this storage announced.
func declared(set logqlengine.SupportedOps, op logql.BinOp) bool {
	return uint64(set)&(uint64(1)<<uint(op)) != 0
}

// SelectLogs implements logqlengine.Querier.
func (q *Querier) SelectLogs(_ context.Context, start, end otelstorage.Timestamp, params logqlengine.SelectLogsParams) (iterators.Iterator[logstorage.Record], error) {
	defer vsched.PauseMapOrder()()
	q.Calls = append(q.Calls, Call{Start: int64(start), End: int64(end), Labels: params.Labels, Line: params.Line})
	if q.FailSelect != nil {
		return nil, q.FailSelect
	}
	var out []logstorage.Record
	// Records of one stream share one resource-attribute map, as they do in the Docker querier (every record of a
	// container carries the same map): writing through it shows in the records that follow.
	shared := map[string]pcommon.Map{}
	for _, r := range q.Recs {
		if q.TimeFilter && (r.TS < int64(start) || r.TS > int64(end)) {
			continue
		}
		labels := InitialLabels(r)
		ok := true
		for _, m := range params.Labels {
			if !declared(q.Caps.Label, m.Op) {
				continue // the storage evaluates what it declared and nothing else: the rest is the engine's to evaluate
			}
			if !MatchLabel(labels, string(m.Label), m.Op, m.Value) {
				ok = false
				break
			}
		}
		for _, f := range params.Line {
			if f.IP || !declared(q.Caps.Line, f.Op) {
				continue // never offloaded, or not declared: ignore
			}
			if !MatchLine(r.Line, f.Op, f.Value) {
				ok = false
				break
			}
		}
		if !ok {
			continue
		}
		skey := ""
		for _, kv := range r.Labels {
			skey += fmt.Sprintf("%d:%s=%d:%s,", len(kv.K), kv.K, len(kv.V), kv.V) // (length-prefixed: label values are arbitrary bytes)
		}
		attrs, have := shared[skey]
		if !have {
			attrs = pcommon.NewMap()
			for _, kv := range r.Labels {
				attrs.PutStr(kv.K, kv.V)
			}
			shared[skey] = attrs
		}
		var tid otelstorage.TraceID
		var sid otelstorage.SpanID
		if _, err := hex.Decode(tid[:], []byte(r.Trace)); err != nil || (r.Trace != "" && len(r.Trace) != 32) {
			panic("mockq: bad trace id " + r.Trace)
		}
		if _, err := hex.Decode(sid[:], []byte(r.Span)); err != nil || (r.Span != "" && len(r.Span) != 16) {
			panic("mockq: bad span id " + r.Span)
		}
		out = append(out, logstorage.Record{
			TraceID:           tid,
			SpanID:            sid,
			Timestamp:         otelstorage.Timestamp(r.TS),
			ObservedTimestamp: otelstorage.Timestamp(r.TS),
			Body:              r.Line,
			Attrs:             otelstorage.Attrs(pcommon.NewMap()),
			ResourceAttrs:     otelstorage.Attrs(attrs),
		})
	}
	q.Opened++
	return &iter{q: q, recs: out}, nil
}

type iter struct {
	q      *Querier
	recs   []logstorage.Record
	n      int
	err    error
	closed bool
}

func (i *iter) Next(r *logstorage.Record) bool {
	if i.q.FailAfter >= 0 && i.n >= i.q.FailAfter {
		i.err = i.q.FailErr
		return false
	}
	if i.n >= len(i.recs) {
		return false
	}
	*r = i.recs[i.n]
	i.n++
	return true
}

func (i *iter) Err() error { return i.err }

func (i *iter) Close() error {
	if !i.closed {
		i.closed = true
		i.q.Closed++
	}
	return nil
}
