//go:build verif

package main

import "github.com/tdakkota/docker-logql/internal/zzverif/vkit"

func main() {
	vkit.Main(map[string]vkit.Check{
		"C05": {Run: c05Run, Replay: c05Replay},
		"C17": {Run: c17Run, Replay: c17Replay},
	})
}
