//go:build verif

// Command pcheck hosts the parser / robustness checks (C05, C17).
package main

import (
	"fmt"
	"sort"
	"strconv"
	"strings"
	"time"

	"github.com/tdakkota/docker-logql/internal/logql"
)

// ---------------------------------------------------------------------------------------------
// Tokens: the generator prints its own AST as a token list; layouts only decide what goes between tokens.

type tkind int

const (
	tWord   tkind = iota // identifier / keyword / number / duration / bytes
	tString              // string literal (carries the unquoted value)
	tPunct               // operators and brackets
)

type tok struct {
	kind tkind
	text string // for tString: the value
}

func w(s string) tok  { return tok{tWord, s} }
func p(s string) tok  { return tok{tPunct, s} }
func st(s string) tok { return tok{tString, s} }

func quoteStr(v string, alt bool) string {
	if alt && !strings.ContainsAny(v, "`\n\r\t") && isPrintableUTF8(v) {
		return "`" + v + "`"
	}
	if alt && strings.HasPrefix(v, "raw:") && !strings.Contains(v, "`") {
		// a raw string spanning lines, with tabs and carriage returns: everything between the backquotes is the value
		return "`" + v + "`"
	}
	return strconv.Quote(v)
}

func isPrintableUTF8(s string) bool {
	for _, r := range s {
		if r == 0xFFFD || r < 0x20 {
			return false
		}
	}
	return true
}

// layout renders a token list. Layouts: 0 single spaces, 1 minimal whitespace, 2 wide spaces,
// 3 newlines and tabs, 4 a comment between every pair of tokens, 5 alternate quoting, 6 comment + indented
// line, 7 runs of comments and empty lines; 6 and 7 also surround the whole text with blanks and comments.
func layout(toks []tok, style int) string {
	var sb strings.Builder
	for i, t := range toks {
		if i > 0 {
			prev := toks[i-1]
			switch style {
			case 1:
				if needSpace(prev, t) {
					sb.WriteByte(' ')
				}
			case 2:
				sb.WriteString("   ")
			case 3:
				sb.WriteString("\n\t")
			case 4:
				sb.WriteString(" # c" + strconv.Itoa(i) + " ) \" `\r | json # still the comment\n") // (a carriage return inside a comment does not end it)
			case 6: // a comment, then a line that starts with blanks
				sb.WriteString("# c\n \t ")
			case 7: // several comments and empty lines in a row, blanks before each
				sb.WriteString("\t#\n  # second ( [ {\n\n\t#third\r\n#\n") // (the last comment is empty: the token follows on the next line)
			default:
				sb.WriteByte(' ')
			}
		}
		switch t.kind {
		case tString:
			sb.WriteString(quoteStr(t.text, style == 5))
		default:
			sb.WriteString(t.text)
		}
	}
	switch style {
	case 6:
		return " \n# leading\n  " + sb.String() + "  # trailing"
	case 7:
		return "#\n#\n" + sb.String() + "\n\n#\n"
	}
	return sb.String()
}

// needSpace tells whether two adjacent tokens would lex differently when glued together.
func needSpace(a, b tok) bool {
	if a.kind == tWord && b.kind == tWord {
		return true
	}
	if a.kind == tWord && b.kind == tString && strings.HasPrefix(quoteStr(b.text, false), "`") {
		return false
	}
	if a.kind == tPunct && b.kind == tPunct {
		glued := a.text + b.text
		for _, bad := range []string{"|=", "|~", "!=", "!~", "=~", "==", ">=", "<=", "--", "||"} {
			if strings.Contains(glued, bad) && !strings.Contains(a.text, bad) && !strings.Contains(b.text, bad) {
				return true
			}
		}
	}
	if strings.HasSuffix(a.text, "-") && strings.HasPrefix(b.text, "-") {
		return true // `- -1.5`: two minus signs glued together start a flag
	}
	// a sign glued to a preceding operator or a number glued to '.' are not generated
	if a.kind == tWord && b.kind == tPunct && b.text == "." {
		return true
	}
	// function-like keywords followed by a word starting with b/w are read as functions: keep the blank
	return false
}

// ---------------------------------------------------------------------------------------------
// AST -> tokens (the generator's printer; `paren` adds redundant parentheses where the grammar allows)

type printer struct {
	redundant bool // redundant parentheses around metric sub-expressions and selectors
	rangeLast bool // print [range] after the pipeline
	prefixGrp bool // print vector-aggregation grouping before the argument list
	andStyle  int  // 0 "and", 1 ",", 2 juxtaposition
}

func opText(op logql.BinOp, line bool) string {
	switch op {
	case logql.OpEq:
		if line {
			return "|="
		}
		return "="
	case logql.OpNotEq:
		return "!="
	case logql.OpRe:
		if line {
			return "|~"
		}
		return "=~"
	case logql.OpNotRe:
		return "!~"
	case logql.OpGt:
		return ">"
	case logql.OpGte:
		return ">="
	case logql.OpLt:
		return "<"
	case logql.OpLte:
		return "<="
	case logql.OpAnd:
		return "and"
	case logql.OpOr:
		return "or"
	case logql.OpUnless:
		return "unless"
	case logql.OpAdd:
		return "+"
	case logql.OpSub:
		return "-"
	case logql.OpMul:
		return "*"
	case logql.OpDiv:
		return "/"
	case logql.OpMod:
		return "%"
	case logql.OpPow:
		return "^"
	}
	panic(fmt.Sprintf("op %d", op))
}

func (pr *printer) selector(s logql.Selector) []tok {
	out := []tok{p("{")}
	for i, m := range s.Matchers {
		if i > 0 {
			out = append(out, p(","))
		}
		out = append(out, w(string(m.Label)), p(opText(m.Op, false)), st(m.Value))
	}
	out = append(out, p("}"))
	if pr.redundant {
		out = append(append([]tok{p("(")}, out...), p(")"))
	}
	return out
}

func labelList(ls []logql.Label) []tok {
	var out []tok
	for i, l := range ls {
		if i > 0 {
			out = append(out, p(","))
		}
		out = append(out, w(string(l)))
	}
	return out
}

// durStyle selects how durations are spelled: 0 Prometheus style (largest unit that divides), 1 Go style with a
// fraction ("1.5h", "0.25s", "300.0s"), 2 several units ("1h30m0s"). Every spelling denotes the same duration.
var durStyle int

func durText(d time.Duration) string {
	if durStyle == 1 && d > 0 {
		switch {
		case d%(30*time.Minute) == 0:
			return strconv.FormatFloat(d.Hours(), 'f', 1, 64) + "h"
		case d%(100*time.Millisecond) == 0:
			return strconv.FormatFloat(d.Seconds(), 'f', 1, 64) + "s"
		default:
			return strconv.FormatFloat(d.Seconds(), 'f', 3, 64) + "s"
		}
	}
	if durStyle == 2 && d > 0 && d < 24*time.Hour {
		return d.String() // 1h30m0s, 5m0s, 250ms
	}
	switch {
	case d%(7*24*time.Hour) == 0 && d > 0:
		return strconv.Itoa(int(d/(7*24*time.Hour))) + "w"
	case d%(24*time.Hour) == 0 && d > 0:
		return strconv.Itoa(int(d/(24*time.Hour))) + "d"
	case d == 90*time.Minute:
		return "1h30m"
	case d%time.Hour == 0 && d > 0:
		return strconv.Itoa(int(d/time.Hour)) + "h"
	case d%time.Minute == 0 && d > 0:
		return strconv.Itoa(int(d/time.Minute)) + "m"
	case d%time.Second == 0:
		return strconv.Itoa(int(d/time.Second)) + "s"
	default:
		return strconv.Itoa(int(d/time.Millisecond)) + "ms"
	}
}

var bytesText = map[uint64]string{5000: "5kb", 5120: "5KiB", 1000000: "1mb", 3: "3b", 2 << 30: "2GiB"}

// numStyle selects how number literals are spelled (set by the caller before printing; one worker prints one
// query at a time): 0 canonical, 1 leading zeros, 2 exponent, 3 trailing zeros. Every spelling denotes the same
// decimal number.
var numStyle int

func numText(f float64) string {
	canon := strconv.FormatFloat(f, 'f', -1, 64)
	switch numStyle {
	case 1:
		return "00" + canon // decimal, whatever it starts with: 0010 is ten, not eight
	case 2:
		if f == float64(int64(f)) && f >= 0 && f < 1e6 {
			return strconv.FormatFloat(f*10, 'f', -1, 64) + "e-1"
		}
		return canon + "e0"
	case 3:
		if strings.Contains(canon, ".") {
			return canon + "00"
		}
		return canon + ".0"
	}
	if f == 1000 {
		return "1e3"
	}
	return canon
}

func cmpOpText(op logql.BinOp) string {
	if op == logql.OpEq {
		return "=="
	}
	return opText(op, false)
}

func (pr *printer) pred(x logql.LabelPredicate) []tok {
	switch x := x.(type) {
	case *logql.LabelPredicateParen:
		return append(append([]tok{p("(")}, pr.pred(x.X)...), p(")"))
	case *logql.LabelPredicateBinOp:
		out := pr.pred(x.Left)
		if x.Op == logql.OpOr {
			out = append(out, w("or"))
		} else {
			switch pr.andStyle {
			case 0:
				out = append(out, w("and"))
			case 1:
				out = append(out, p(","))
			}
		}
		return append(out, pr.pred(x.Right)...)
	case *logql.LabelMatcher:
		return []tok{w(string(x.Label)), p(opText(x.Op, false)), st(x.Value)}
	case *logql.NumberFilter:
		return []tok{w(string(x.Label)), p(cmpOpText(x.Op)), w(numText(x.Value))}
	case *logql.DurationFilter:
		return []tok{w(string(x.Label)), p(cmpOpText(x.Op)), w(durText(x.Value))}
	case *logql.BytesFilter:
		return []tok{w(string(x.Label)), p(cmpOpText(x.Op)), w(bytesText[x.Value])}
	case *logql.IPFilter:
		return []tok{w(string(x.Label)), p(cmpOpText(x.Op)), w("ip"), p("("), st(x.Value), p(")")}
	}
	panic(fmt.Sprintf("pred %T", x))
}

func extraction(labels []logql.Label, exprs []logql.LabelExtractionExpr) []tok {
	var out []tok
	n := 0
	for _, l := range labels {
		if n > 0 {
			out = append(out, p(","))
		}
		out = append(out, w(string(l)))
		n++
	}
	for _, e := range exprs {
		if n > 0 {
			out = append(out, p(","))
		}
		out = append(out, w(string(e.Label)), p("="), st(e.Expr))
		n++
	}
	return out
}

func labelsAndMatchers(labels []logql.Label, ms []logql.LabelMatcher) []tok {
	var out []tok
	n := 0
	for _, l := range labels {
		if n > 0 {
			out = append(out, p(","))
		}
		out = append(out, w(string(l)))
		n++
	}
	for _, m := range ms {
		if n > 0 {
			out = append(out, p(","))
		}
		out = append(out, w(string(m.Label)), p(opText(m.Op, false)), st(m.Value))
		n++
	}
	return out
}

func (pr *printer) stage(s logql.PipelineStage) []tok {
	switch s := s.(type) {
	case *logql.LineFilter:
		out := []tok{p(opText(s.Op, true))}
		if s.IP {
			return append(out, w("ip"), p("("), st(s.Value), p(")"))
		}
		return append(out, st(s.Value))
	case *logql.JSONExpressionParser:
		return append([]tok{p("|"), w("json")}, extraction(s.Labels, s.Exprs)...)
	case *logql.LogfmtExpressionParser:
		return append([]tok{p("|"), w("logfmt")}, extraction(s.Labels, s.Exprs)...)
	case *logql.RegexpLabelParser:
		return []tok{p("|"), w("regexp"), st(s.Regexp.String())}
	case *logql.PatternLabelParser:
		return []tok{p("|"), w("pattern"), st(s.Pattern)}
	case *logql.UnpackLabelParser:
		return []tok{p("|"), w("unpack")}
	case *logql.LineFormat:
		return []tok{p("|"), w("line_format"), st(s.Template)}
	case *logql.DecolorizeExpr:
		return []tok{p("|"), w("decolorize")}
	case *logql.LabelFilter:
		return append([]tok{p("|")}, pr.pred(s.Pred)...)
	case *logql.LabelFormatExpr:
		out := []tok{p("|"), w("label_format")}
		n := 0
		for _, r := range s.Labels {
			if n > 0 {
				out = append(out, p(","))
			}
			// RenameLabel{Label: src, To: dst} is written dst=src
			out = append(out, w(string(r.To)), p("="), w(string(r.Label)))
			n++
		}
		for _, v := range s.Values {
			if n > 0 {
				out = append(out, p(","))
			}
			out = append(out, w(string(v.Label)), p("="), st(v.Template))
			n++
		}
		return out
	case *logql.DropLabelsExpr:
		return append([]tok{p("|"), w("drop")}, labelsAndMatchers(s.Labels, s.Matchers)...)
	case *logql.KeepLabelsExpr:
		return append([]tok{p("|"), w("keep")}, labelsAndMatchers(s.Labels, s.Matchers)...)
	case *logql.DistinctFilter:
		return append([]tok{p("|"), w("distinct")}, labelList(s.Labels)...)
	}
	panic(fmt.Sprintf("stage %T", s))
}

func (pr *printer) pipeline(stages []logql.PipelineStage) []tok {
	var out []tok
	for _, s := range stages {
		out = append(out, pr.stage(s)...)
	}
	return out
}

func (pr *printer) grouping(g *logql.Grouping) []tok {
	kw := "by"
	if g.Without {
		kw = "without"
	}
	return append(append([]tok{w(kw), p("(")}, labelList(g.Labels)...), p(")"))
}

func (pr *printer) expr(e logql.Expr) []tok {
	switch e := e.(type) {
	case *logql.ParenExpr:
		return append(append([]tok{p("(")}, pr.expr(e.X)...), p(")"))
	case *logql.LogExpr:
		// the grammar allows parentheses around a whole log query, and around the selector only inside a range
		plain := *pr
		plain.redundant = false
		return pr.wrap(append(plain.selector(e.Sel), pr.pipeline(e.Pipeline)...))
	case *logql.LiteralExpr:
		if e.Value < 0 {
			return []tok{p("-"), w(numText(-e.Value))}
		}
		return []tok{w(numText(e.Value))}
	case *logql.VectorExpr:
		return []tok{w("vector"), p("("), w(numText(e.Value)), p(")")}
	case *logql.RangeAggregationExpr:
		out := []tok{w(e.Op.String()), p("(")}
		if e.Parameter != nil {
			out = append(out, w(numText(*e.Parameter)), p(","))
		}
		out = append(out, pr.selector(e.Range.Sel)...)
		rng := []tok{p("["), w(durText(e.Range.Range)), p("]")}
		if e.Range.Offset != nil {
			rng = append(rng, w("offset"), w(durText(e.Range.Offset.Duration)))
		}
		var pipe []tok
		pipe = append(pipe, pr.pipeline(e.Range.Pipeline)...)
		if u := e.Range.Unwrap; u != nil {
			pipe = append(pipe, p("|"), w("unwrap"))
			if u.Op != "" {
				pipe = append(pipe, w(u.Op), p("("), w(string(u.Label)), p(")"))
			} else {
				pipe = append(pipe, w(string(u.Label)))
			}
			for _, f := range u.Filters {
				pipe = append(pipe, p("|"), w(string(f.Label)), p(opText(f.Op, false)), st(f.Value))
			}
		}
		if pr.rangeLast && len(pipe) > 0 {
			out = append(append(out, pipe...), rng...)
		} else {
			out = append(append(out, rng...), pipe...)
		}
		out = append(out, p(")"))
		if e.Grouping != nil {
			out = append(out, pr.grouping(e.Grouping)...)
		}
		return pr.wrap(out)
	case *logql.VectorAggregationExpr:
		out := []tok{w(e.Op.String())}
		if e.Grouping != nil && pr.prefixGrp {
			out = append(out, pr.grouping(e.Grouping)...)
		}
		out = append(out, p("("))
		if e.Parameter != nil {
			out = append(out, w(strconv.Itoa(*e.Parameter)), p(","))
		}
		out = append(append(out, pr.expr(e.Expr)...), p(")"))
		if e.Grouping != nil && !pr.prefixGrp {
			out = append(out, pr.grouping(e.Grouping)...)
		}
		return pr.wrap(out)
	case *logql.LabelReplaceExpr:
		out := append([]tok{w("label_replace"), p("(")}, pr.expr(e.Expr)...)
		for _, s := range []string{e.DstLabel, e.Replacement, e.SrcLabel, e.Regex} {
			out = append(out, p(","), st(s))
		}
		return pr.wrap(append(out, p(")")))
	case *logql.BinOpExpr:
		out := pr.expr(e.Left)
		out = append(out, w(opText(e.Op, false)))
		if e.Op == logql.OpEq {
			out[len(out)-1] = p("==")
		}
		m := e.Modifier
		if m.ReturnBool {
			out = append(out, w("bool"))
		}
		if m.Op != "" {
			out = append(out, w(m.Op), p("("))
			out = append(append(out, labelList(m.OpLabels)...), p(")"))
			if m.Group != "" {
				out = append(out, w("group_"+m.Group))
				if len(m.Include) > 0 {
					out = append(append(append(out, p("(")), labelList(m.Include)...), p(")"))
				}
			}
		}
		return append(out, pr.expr(e.Right)...)
	}
	panic(fmt.Sprintf("expr %T", e))
}

func (pr *printer) wrap(t []tok) []tok {
	if pr.redundant {
		return append(append([]tok{p("(")}, t...), p(")"))
	}
	return t
}

// ---------------------------------------------------------------------------------------------
// Canonical dump: parentheses wrappers stripped, regexps by source, same-operator predicate chains flattened.

func dumpMatcher(m logql.LabelMatcher) string {
	re := "-"
	if m.Re != nil {
		re = m.Re.String()
	}
	return fmt.Sprintf("%s %s %q re=%s", m.Label, opText(m.Op, false), m.Value, re)
}

func dumpPred(x logql.LabelPredicate) string {
	switch x := x.(type) {
	case *logql.LabelPredicateParen:
		return dumpPred(x.X)
	case *logql.LabelPredicateBinOp:
		var parts []string
		var flat func(y logql.LabelPredicate)
		flat = func(y logql.LabelPredicate) {
			for {
				pp, ok := y.(*logql.LabelPredicateParen)
				if !ok {
					break
				}
				y = pp.X
			}
			if b, ok := y.(*logql.LabelPredicateBinOp); ok && b.Op == x.Op {
				flat(b.Left)
				flat(b.Right)
				return
			}
			parts = append(parts, dumpPred(y))
		}
		flat(x)
		return "(" + opText(x.Op, false) + " " + strings.Join(parts, " ") + ")"
	case *logql.LabelMatcher:
		return "m[" + dumpMatcher(*x) + "]"
	case *logql.NumberFilter:
		return fmt.Sprintf("num[%s %s %v]", x.Label, opText(x.Op, false), x.Value)
	case *logql.DurationFilter:
		return fmt.Sprintf("dur[%s %s %d]", x.Label, opText(x.Op, false), int64(x.Value))
	case *logql.BytesFilter:
		return fmt.Sprintf("bytes[%s %s %d]", x.Label, opText(x.Op, false), x.Value)
	case *logql.IPFilter:
		return fmt.Sprintf("ip[%s %s %q]", x.Label, opText(x.Op, false), x.Value)
	case nil:
		return "nil"
	}
	return fmt.Sprintf("?%T", x)
}

func dumpLabels(ls []logql.Label) string {
	var p []string
	for _, l := range ls {
		p = append(p, string(l))
	}
	return "[" + strings.Join(p, ",") + "]"
}

func dumpStage(s logql.PipelineStage) string {
	switch s := s.(type) {
	case *logql.LineFilter:
		re := "-"
		if s.Re != nil {
			re = s.Re.String()
		}
		return fmt.Sprintf("line[%s %q ip=%v re=%s]", opText(s.Op, true), s.Value, s.IP, re)
	case *logql.JSONExpressionParser:
		return fmt.Sprintf("json[%s %v]", dumpLabels(s.Labels), s.Exprs)
	case *logql.LogfmtExpressionParser:
		return fmt.Sprintf("logfmt[%s %v]", dumpLabels(s.Labels), s.Exprs)
	case *logql.RegexpLabelParser:
		var ks []int
		for k := range s.Mapping {
			ks = append(ks, k)
		}
		sort.Ints(ks)
		var mp []string
		for _, k := range ks {
			mp = append(mp, fmt.Sprintf("%d:%s", k, s.Mapping[k]))
		}
		return fmt.Sprintf("regexp[%s %v]", s.Regexp.String(), mp)
	case *logql.PatternLabelParser:
		return fmt.Sprintf("pattern[%q]", s.Pattern)
	case *logql.UnpackLabelParser:
		return "unpack"
	case *logql.LineFormat:
		return fmt.Sprintf("line_format[%q]", s.Template)
	case *logql.DecolorizeExpr:
		return "decolorize"
	case *logql.LabelFilter:
		return "filter" + dumpPred(s.Pred)
	case *logql.LabelFormatExpr:
		return fmt.Sprintf("label_format[%v %v]", s.Labels, s.Values)
	case *logql.DropLabelsExpr:
		var ms []string
		for _, m := range s.Matchers {
			ms = append(ms, dumpMatcher(m))
		}
		return fmt.Sprintf("drop[%s %v]", dumpLabels(s.Labels), ms)
	case *logql.KeepLabelsExpr:
		var ms []string
		for _, m := range s.Matchers {
			ms = append(ms, dumpMatcher(m))
		}
		return fmt.Sprintf("keep[%s %v]", dumpLabels(s.Labels), ms)
	case *logql.DistinctFilter:
		return "distinct" + dumpLabels(s.Labels)
	}
	return fmt.Sprintf("?%T", s)
}

func dumpSel(s logql.Selector) string {
	var ms []string
	for _, m := range s.Matchers {
		ms = append(ms, dumpMatcher(m))
	}
	return "{" + strings.Join(ms, "; ") + "}"
}

func dumpPipeline(st []logql.PipelineStage) string {
	var p []string
	for _, s := range st {
		p = append(p, dumpStage(s))
	}
	return "<" + strings.Join(p, " | ") + ">"
}

func dumpGrouping(g *logql.Grouping) string {
	if g == nil {
		return "nogroup"
	}
	return fmt.Sprintf("group(without=%v %s)", g.Without, dumpLabels(g.Labels))
}

func dumpExpr(e logql.Expr) string {
	switch e := e.(type) {
	case *logql.ParenExpr:
		return dumpExpr(e.X)
	case *logql.LogExpr:
		return "log" + dumpSel(e.Sel) + dumpPipeline(e.Pipeline)
	case *logql.LiteralExpr:
		return fmt.Sprintf("lit(%v)", e.Value)
	case *logql.VectorExpr:
		return fmt.Sprintf("vector(%v)", e.Value)
	case *logql.RangeAggregationExpr:
		par := "noparam"
		if e.Parameter != nil {
			par = fmt.Sprint(*e.Parameter)
		}
		off := "nooffset"
		if e.Range.Offset != nil {
			off = fmt.Sprint(int64(e.Range.Offset.Duration))
		}
		un := "nounwrap"
		if u := e.Range.Unwrap; u != nil {
			var fs []string
			for _, f := range u.Filters {
				fs = append(fs, dumpMatcher(f))
			}
			un = fmt.Sprintf("unwrap(%s %s %v)", u.Op, u.Label, fs)
		}
		return fmt.Sprintf("range(%s %s %s%s [%d] %s %s %s)", e.Op, par, dumpSel(e.Range.Sel), dumpPipeline(e.Range.Pipeline), int64(e.Range.Range), off, un, dumpGrouping(e.Grouping))
	case *logql.VectorAggregationExpr:
		par := "noparam"
		if e.Parameter != nil {
			par = fmt.Sprint(*e.Parameter)
		}
		return fmt.Sprintf("vecagg(%s %s %s %s)", e.Op, par, dumpGrouping(e.Grouping), dumpExpr(e.Expr))
	case *logql.LabelReplaceExpr:
		re := "-"
		if e.Re != nil {
			re = e.Re.String()
		}
		return fmt.Sprintf("label_replace(%s %q %q %q %q re=%s)", dumpExpr(e.Expr), e.DstLabel, e.Replacement, e.SrcLabel, e.Regex, re)
	case *logql.BinOpExpr:
		m := e.Modifier
		return fmt.Sprintf("bin(%s bool=%v %s%s %s%s %s %s)", opText(e.Op, false), m.ReturnBool, m.Op, dumpLabels(m.OpLabels), m.Group, dumpLabels(m.Include), dumpExpr(e.Left), dumpExpr(e.Right))
	case nil:
		return "nil"
	}
	return fmt.Sprintf("?%T", e)
}
