//go:build verif

package main

import (
	"context"
	"fmt"
	"strconv"
	"strings"
	"time"

	"go.opentelemetry.io/otel/trace/noop"

	"github.com/tdakkota/docker-logql/internal/logql"
	"github.com/tdakkota/docker-logql/internal/logql/logqlengine"
	"github.com/tdakkota/docker-logql/internal/otelstorage"
	"github.com/tdakkota/docker-logql/internal/zzverif/mockq"
	"github.com/tdakkota/docker-logql/internal/zzverif/vkit"
)

const sec17 = int64(1e9)

// c17Contents: log contents that stress every stage (arbitrary bytes, truncated and deep JSON,
// malformed logfmt, extreme numbers).
// c17Wide: a JSON object of n fields (more labels than any small fixed capacity), followed in its content by other lines.
func c17Wide(n int) string {
	var parts []string
	for i := 0; i < n; i++ {
		parts = append(parts, fmt.Sprintf(`"f%02d":"v%d"`, i, i))
	}
	return "{" + strings.Join(parts, ",") + "}"
}

func c17WideLogfmt(n int) string {
	var parts []string
	for i := 0; i < n; i++ {
		parts = append(parts, fmt.Sprintf(`f%02d=v%d`, i, i))
	}
	return strings.Join(parts, " ")
}

func c17Contents() [][]mockq.Rec {
	mk := func(lines ...string) []mockq.Rec {
		var out []mockq.Rec
		for i, l := range lines {
			// (seconds 1..12 over and over: every line lies inside the windows of the three evaluation modes)
			out = append(out, mockq.Rec{TS: int64(i%12+1)*sec17 + int64(i/12), Line: l, Labels: []mockq.KV{{K: "a", V: "b"}, {K: "v", V: []string{"5", "abc", "1e999", "-0", "NaN"}[i%5]}, {K: "lat", V: []string{"1s", "99999999h", "x", "-1ns", ""}[i%5]}}})
		}
		return out
	}
	// nesting depth 200 in the bulk contents; the 3000-deep documents live in their own content, which only
	// the JSON-reading stages are evaluated against (json extraction is quadratic in the nesting depth: 13 s per
	// evaluation at depth 10^4, see DESIGN.md)
	deep := strings.Repeat(`{"a":`, 200) + "1" + strings.Repeat("}", 200)
	deepArr := strings.Repeat("[", 200) + strings.Repeat("]", 200)
	// depth 3000: about 1 s per evaluation on an idle core, far below the 20 s / 120 s watchdog even on a loaded machine
	veryDeep := strings.Repeat(`{"a":`, 3000) + "1" + strings.Repeat("}", 3000)
	veryDeepArr := strings.Repeat("[", 3000) + strings.Repeat("]", 3000)
	return [][]mockq.Rec{
		mk("\x00\xff\xfe\x80", "", "a", "\x1b[\x1b[;;;;m", strings.Repeat("é", 300), "<>{{}}%!s(MISSING)", "\"", "\\"),
		mk(`{"a":{"b":[1,2`, c17Wide(70), deep, deepArr, `{"a":"b","a":{"a":"b"},"v":1e999,"":""}`, `{"_entry":5,"x y":"z"}`, `{"_entry":"{\"_entry\":1}","a":"\ud800"}`, `[1,2,3]`, `null`, `{"a":1}{"a":2}`, `{"tags":["a",null],"a":[null]}`, `{"a":{"b":[{"c":null},null,[null]]}}`, `{"__error__":"boom","n":"abc","v":"x"}`, `{"__error_details__":"d","n":"abc"}`,
			"{\"caf\xe9\":1,\"a\xff\":2,\"\xff\xfe\":3,\"ok\":\"\xc3\"}",
			`{"`+strings.Repeat("k", 60)+`.io/name":"v","0`+strings.Repeat("9", 63)+`":1,"`+strings.Repeat("a.b/", 80)+`":true}`),
		mk(`d= a= b= sz= v=`, c17WideLogfmt(70), `d="" a="" v=""`, `{"d":"","a":"","v":""}`, `d=1s a=2 b=3 v=4`, `d a b v`, `__error__=boom n=abc v=x d=y`, `__error_details__=d n=abc v=x`,
			strings.Repeat("k", 60)+`.io/name=v 0`+strings.Repeat("9", 63)+`=1 `+strings.Repeat("a.b/", 80)+`=true`),
		mk(`a="x`, `==`, `a=b=c`, `"`, `a= b= =c`, "a=\x00 b=\xff", `k="\xzz"`, `a="unterminated \"`, strings.Repeat("k=v ", 500)),
		mk(`v=1e999 d=99999999h sz=99999999999999999999EB`, `v=-0 d=-1ns sz=-1KB`, `v=9223372036854775808 d=9223372036854775807ns sz=18446744073709551616b`, `v=NaN d=NaN sz=NaN`, `v=Inf d=+Inf sz=0x10`, `v=1e-999 d=0.0000000001ns sz=1.5.5MB`, `{"v":1e999,"d":"9e99h","sz":"1e99gb","ip":"999.999.999.999"}`),
		mk(`GET /a 200 10.0.0.1 ::ffff:1.2.3.4 1.2.3.4.5.6 ::::::`, `ip=::1 ip2=1::1::1 addr=256.1.1.1`, `a b c d e f`, `[x] "y"`, `<a> <b>`, `x 1`, `9.`, `1.2`, `:`, `f:`),
		mk(veryDeep, veryDeepArr, `{"_entry":`+veryDeepArr+`}`),
	}
}

var c17Data = c17Contents()

// c17Bulk is the number of contents every parsed query is evaluated against (the last one is reserved).
var c17Bulk = len(c17Data) - 1

type c17Input struct {
	Query   string `json:"query"`
	Content int    `json:"content"`
	Range   bool   `json:"range"`
	// Sparse: a range query whose step (4 s) exceeds the usual [1s]/[2s] ranges, with records between the windows
	Sparse bool `json:"sparse,omitempty"`
	// Tiny: a range query of five steps of 250 microseconds
	Tiny bool `json:"tiny,omitempty"`
}

type evalOutcome struct {
	done   bool
	pan    string
	errTxt string
}

func c17EvalOnce(in c17Input, timeout time.Duration) evalOutcome {
	ch := make(chan evalOutcome, 1)
	go func() {
		var o evalOutcome
		defer func() {
			if p := recover(); p != nil {
				o.pan = fmt.Sprint(p)
			}
			o.done = true
			ch <- o
		}()
		q := mockq.New(c17Data[in.Content])
		eng := logqlengine.NewEngine(q, logqlengine.Options{TracerProvider: noop.NewTracerProvider()})
		params := logqlengine.EvalParams{Start: otelstorage.Timestamp(5 * sec17), End: otelstorage.Timestamp(5 * sec17), Limit: 100}
		if in.Range {
			params = logqlengine.EvalParams{Start: otelstorage.Timestamp(2 * sec17), End: otelstorage.Timestamp(6 * sec17), Step: time.Second, Limit: -1}
		}
		if in.Sparse {
			params = logqlengine.EvalParams{Start: otelstorage.Timestamp(1 * sec17), End: otelstorage.Timestamp(13 * sec17), Step: 4 * time.Second, Limit: 3}
		}
		if in.Tiny {
			params = logqlengine.EvalParams{Start: otelstorage.Timestamp(3 * sec17), End: otelstorage.Timestamp(3*sec17 + 1000000), Step: 250 * time.Microsecond, Limit: -1}
		}
		_, err := eng.Eval(context.Background(), in.Query, params)
		if err != nil {
			o.errTxt = err.Error()
		}
	}()
	select {
	case o := <-ch:
		return o
	case <-time.After(timeout):
		return evalOutcome{}
	}
}

// c17Eval evaluates one query against one content; returns false when the worker must stop (hang).
func c17Eval(r *vkit.Run, in c17Input) bool {
	r.Journal("C17", in)
	o := c17EvalOnce(in, 20*time.Second)
	r.Eval()
	if !o.done {
		// candidate hang: believed only if it also exceeds a generous deadline in a second run
		o = c17EvalOnce(in, 120*time.Second)
		if !o.done {
			r.Fail("C17", in, nil, "no return within 120s (after a first run exceeded 20s)", "result or error", "evaluation does not terminate: "+in.Query, "")
			r.Cap("worker stopped after a non-terminating evaluation")
			return false
		}
	}
	if o.pan != "" {
		r.Fail("C17", in, nil, "panic: "+o.pan, "result or error", fmt.Sprintf("evaluation of %q over content %d panicked: %s", in.Query, in.Content, o.pan), "")
	}
	return true
}

// c17Query parses text (must not panic); if it parses, evaluates it against every content, instant and range.
func c17Query(r *vkit.Run, text string) bool {
	r.Step(1)
	r.Begin("C17", c17Input{Query: text, Content: -1}) // the parser itself may fail to terminate
	if len(text) > 40 {
		r.Journal("C17", c17Input{Query: text, Content: -1})
	}
	_, err, pan := parseSafe(text)
	if pan != "" {
		r.Eval()
		r.Fail("C17", c17Input{Query: text, Content: -1}, nil, "panic: "+pan, "error", "parser panicked on "+fmt.Sprintf("%q", text), "")
		return true
	}
	if err != nil {
		r.Eval()
		r.Count("rejected_by_parser", 1)
		return true
	}
	r.Count("parsed_and_evaluated", 1)
	r.NonTrivial()
	r.State(text)
	for c := 0; c < c17Bulk; c++ {
		for _, rg := range []bool{false, true} {
			if !c17Eval(r, c17Input{Query: text, Content: c, Range: rg}) {
				return false
			}
		}
		if !c17Eval(r, c17Input{Query: text, Content: c, Range: true, Sparse: true}) {
			return false
		}
	}
	// steps shorter than a millisecond, over the first content
	if !c17Eval(r, c17Input{Query: text, Content: 0, Range: true, Tiny: true}) {
		return false
	}
	return true
}

var c17Vocab = []string{
	"{", "}", "(", ")", "[", "]", ",", "=", "!=", "=~", "!~", "|=", "|~", "|", "==", ">", ">=", "<", "<=", "+", "-", "*", "/", "%", "^",
	"and", "or", "unless", "by", "without", "bool", "on", "ignoring", "group_left", "offset", "unwrap", "json", "logfmt", "regexp", "pattern", "unpack",
	"line_format", "label_format", "decolorize", "drop", "keep", "distinct", "ip", "bytes", "duration", "sum", "topk", "sort", "count_over_time", "rate", "quantile_over_time", "first_over_time", "absent_over_time",
	"vector", "label_replace", "a", "v", `"x"`, `"("`, `"{{.a}}"`, `"{{"`, `"<a> <b>"`, "5", "0", "0.5", "5m", "5kb", `{a="b"}`, "{}", "[1s]", "[2s]", "--x", ".",
}

func c17Run(r *vkit.Run) {
	vkit.StallSeconds = 200 // evaluations have their own 20 s / 120 s watchdog; this one guards the parser
	thorough := r.Thorough()
	idx := 0
	stop := false
	visit := func(text string) {
		idx++
		if stop || !r.Mine(idx) {
			return
		}
		if r.Stop() {
			stop = true
			return
		}
		if !c17Query(r, text) {
			stop = true
		}
	}
	// (a) the positive corpus of C05, plain layout + comment layout
	cp := getCorpus(false)
	for i := range cp {
		toks, _ := c05Tokens(c05Input{Index: i, Tier: "quick"})
		visit(layout(toks, 0))
		if i%10 == 0 {
			visit(layout(toks, 4))
		}
	}
	r.GlobalState("corpus")
	// (b) single-token mutations of corpus queries: delete, replace by / insert every vocabulary token
	step := 29
	if thorough {
		step = 3
	}
	for i := 0; i < len(cp); i += step {
		toks, _ := c05Tokens(c05Input{Index: i, Tier: "quick"})
		for pos := range toks {
			del := append(append([]tok(nil), toks[:pos]...), toks[pos+1:]...)
			visit(layout(del, 0))
			for _, v := range c17Vocab {
				rep := append([]tok(nil), toks...)
				rep[pos] = w(v)
				visit(layout(rep, 0))
				ins := append(append(append([]tok(nil), toks[:pos]...), w(v)), toks[pos:]...)
				visit(layout(ins, 0))
			}
		}
		// ... and appended after the last token (what follows a complete query)
		for _, v := range c17Vocab {
			visit(layout(append(append([]tok(nil), toks...), w(v)), 0))
		}
	}
	r.GlobalState("token-mutations")
	// (c) all token sequences up to length L over the vocabulary
	L := 3
	vocab := c17Vocab
	if thorough {
		L = 4
	}
	var rec func(cur []string)
	rec = func(cur []string) {
		if stop {
			return
		}
		if len(cur) > 0 {
			visit(strings.Join(cur, " "))
		}
		if len(cur) == L {
			return
		}
		for _, v := range vocab {
			rec(append(cur, v))
		}
	}
	rec(nil)
	r.GlobalState("token-sequences")
	// (d) all byte strings up to length 3 over a 24-byte alphabet
	bytesAlpha := []byte{'{', '}', '(', ')', '[', ']', '"', '`', '\'', '\\', '#', '|', '=', '!', '~', '-', '.', '5', 'a', 'm', ' ', '\n', 0xff, 0x00}
	var brec func(cur []byte)
	brec = func(cur []byte) {
		if stop {
			return
		}
		if len(cur) > 0 {
			visit(string(cur))
		}
		if len(cur) == 3 {
			return
		}
		for _, b := range bytesAlpha {
			brec(append(cur, b))
		}
	}
	brec(nil)
	r.GlobalState("byte-strings")
	// a few longer hostile queries (templates, regexes, patterns, paths)
	for _, q := range []string{
		`{} | line_format "{{ .missing.field }}"`, `{} | line_format "{{ index .a 5 }}"`, `{} | line_format "{{ div 1 0 }}"`, `{} | line_format "{{ mod 1 0 }}"`, `{} | line_format "{{ substr 5 1 .a }}"`,
		`{} | line_format "{{ trunc -5 .a }}"`, `{} | line_format "{{ alignLeft -1 .a }}{{ alignRight 3 __line__ }}"`, `{} | line_format "{{ __timestamp__ | date \"2006\" }}"`, `{} | line_format "{{ unixToTime .v }}"`, `{} | line_format "{{ fromJson __line__ }}"`,
		`{} | line_format "{{ regexReplaceAll \"(\" .a \"\" }}"`, `{} | line_format "{{ b64dec __line__ }}"`, `{} | line_format "{{ int .v | add 1 }}"`, `{} | line_format "{{ float64 .v | ceil }}"`, `{} | line_format "{{ toDate \"2006\" .a }}"`,
		`{} | label_format x="{{ __line__ | urldecode }}"`, `{} | label_format x="{{ count \"(\" .a }}"`, `{} | json x="a[99999999999999999999]"`, `{} | json x="[\"a\""`, `{} | json x="a..b"`, `{} | json x=""`,
		`{} | pattern "<a><b>"`, `{} | pattern "<_>"`, `{} | pattern ""`, `{} | pattern "<a> <a>"`, `{} | regexp "(?P<a>.*)*"`, `{} | regexp "(?P<0a>x)"`,
		`{} | logfmt | v > 1e999`, `{} | logfmt | d > 99999999h`, `{} | logfmt | sz > 99999999999999999999EB`, `{} | logfmt | ip == ip("1.2.3.4-1.2.3.3")`, `{} | ip == ip("::1/200")`, `{} |= ip("")`,
		`quantile_over_time(99, {} | unwrap v [10s])`, `quantile_over_time(-1, {} | unwrap v [10s]) by ()`, `stddev_over_time({} | unwrap duration(lat) [10s])`, `sum_over_time({} | unwrap bytes(v) [10s])`, `rate({} | unwrap v [1ns])`, `count_over_time({}[0s])`,
		`topk(100000000, count_over_time({}[10s]))`, `bottomk(1, sum_over_time({} | logfmt | unwrap v [10s])) / 0`, `count_over_time({}[10s]) % 0 ^ 0.5`, `sort(count_over_time({}[10s]) == bool 1)`, `vector(1e999) ^ vector(1e999)`, `-0`,
		`label_replace(count_over_time({}[10s]), "a", "$9", "a", "(.*)")`, `label_replace(rate({}[1s]), "", "", "", "")`, `absent_over_time({}[10s])`, `rate_counter({} | unwrap v [10s])`,
		`quantile_over_time(1, {} | unwrap v [10s]) by (a)`, `quantile_over_time(0, {} | unwrap v [10s]) without (v, lat, msg)`, `quantile_over_time(1, {} | logfmt | unwrap v [10s]) by (a)`,
		`{} |= ip("1.2.3.4") != ip("10.0.0.0/8")`, `{} | logfmt | ip == ip("1.2.3.4")`, `{} != ip("::1")`,
		`{} | regexp "(?P<m>\\w+)( (?P<s>\\d+))?"`, `{} | regexp "(?P<a>G)|(?P<b>x)"`, `{} | regexp "(?P<a>z)?(?P<b>.)"`,
		`vector(1) or vector(2) or vector(3)`, `vector(1) and vector(2) unless vector(3) and vector(4)`, `vector(1) + 1 or vector(2) or vector(3) unless vector(1)`,
		`count_over_time({}[1s]) or count_over_time({}[2s]) or vector(0)`,
		// empty vectors at every level
		`vector(1) unless vector(1)`, `vector(1) and (vector(2) unless vector(2))`, `sum(vector(1) unless vector(1))`, `topk(1, vector(1) unless vector(1))`, `sort(vector(1) unless vector(1))`,
		`count_over_time({nosuch="x"}[10s])`, `sum(count_over_time({nosuch="x"}[10s])) / sum(count_over_time({nosuch="y"}[10s]))`, `quantile_over_time(0.5, {nosuch="x"} | unwrap v [10s]) by (a)`,
		`count_over_time({}[10s]) > 100000`, `(count_over_time({}[10s]) > 100000) or vector(0)`, `{nosuch="x"}`, `{} |= "no such needle at all"`,
		// a set operation whose right side has more series than its left; conversions of empty values; grouping lists
		// longer than the label set they apply to
		`sum(count_over_time({}[10s])) unless count_over_time({}[10s])`, `sum(count_over_time({}[10s])) and count_over_time({} | logfmt [10s])`, `vector(1) unless count_over_time({} | json [10s])`,
		`count_over_time({}[10s]) unless sum(count_over_time({}[10s]))`, `sum by (a) (count_over_time({} | logfmt [10s])) or sum by (a, b, c, d) (count_over_time({} | logfmt [10s]))`,
		`sum_over_time({} | logfmt | unwrap duration(d) [10s])`, `sum_over_time({} | logfmt | unwrap duration_seconds(a) [10s])`, `sum_over_time({} | logfmt | unwrap bytes(b) [10s])`, `sum_over_time({} | json | unwrap duration(d) [10s])`,
		`avg_over_time({} | logfmt | unwrap v [10s]) without (a, b, c, d, e, f, g, h, i, j, k, l, m, n)`, `max_over_time({} | logfmt | unwrap v [10s]) by (a, b, c, d, e, f, g, h, i, j, k, l, m, n)`,
		`sum without (a, b, c, d, e, f, g, h, i, j, k, l, m, n, msg) (count_over_time({} | logfmt [10s]))`, `count_over_time({}[10s]) > on (a, b, c, d, e, f, g, h) count_over_time({}[10s])`,
		// integer, float and duration parameters at and beyond the limits of their types
		`topk(2147483648, count_over_time({}[10s]))`, `topk(4294967296, count_over_time({}[10s])) by (a)`, `topk(9223372036854775807, count_over_time({}[10s]))`, `bottomk(9223372036854775807, count_over_time({} | json [10s])) by (a)`,
		`topk(9223372036854775808, count_over_time({}[10s]))`, `bottomk(1e18, count_over_time({}[10s]))`, `topk(1.5, count_over_time({}[10s]))`, `topk(9223372036854775807, vector(1))`,
		`quantile_over_time(1e308, {} | unwrap v [10s])`, `quantile_over_time(-1e308, {} | logfmt | unwrap v [10s]) by (a)`, `quantile_over_time(0.5, {} | logfmt | unwrap v [2562047h])`,
		`count_over_time({}[2562047h])`, `count_over_time({}[106751d])`, `count_over_time({}[292y])`, `count_over_time({}[293y])`, `count_over_time({}[9223372036s])`, `count_over_time({}[10s] offset 2562047h)`, `count_over_time({}[10s] offset -2562047h)`, `count_over_time({}[2562047h] offset 2562047h)`,
		`rate({}[2562047h])`, `bytes_rate({}[1ns])`, `rate({} | logfmt | unwrap v [1ns])`, `vector(1e308) * vector(1e308)`, `vector(-1e308) - vector(1e308)`, `vector(9223372036854775807) % vector(0.5)`,
		`{} | logfmt | v > 9223372036854775807`, `{} | logfmt | d > 2562047h`, `{} | logfmt | d > 2562048h`, `{} | logfmt | sz >= 8EiB`, `{} | logfmt | sz >= 16EiB`, `{} | logfmt | sz > 9223372036854775807B`,
		// grouping by labels no record has, sorting before, between and after the labels the records carry
		`sum by (zzz) (count_over_time({}[10s]))`, `sum by (A, zzz) (count_over_time({} | logfmt [10s]))`, `avg_over_time({} | unwrap v [10s]) by (zzz)`, `max_over_time({} | logfmt | unwrap v [10s]) by (b0, zzz, _)`,
		`sum without (zzz) (count_over_time({}[10s]))`, `topk(1, count_over_time({}[10s])) by (zzz)`, `sum by (zzz) (sum by (a) (count_over_time({}[10s])))`, `sum by (zzz) (vector(1))`, `count_over_time({} | keep nosuch [10s]) by (zzz)`,
		`sum by (zzz) (count_over_time({} | drop a, v, lat, msg [10s]))`, `quantile_over_time(0.5, {} | unwrap v [10s]) by (msh, zzz)`,
		// a second failure on a line that already carries an error label (its own, or from an earlier stage whose details were removed)
		`{} | json | n > 5`, `{} | logfmt | n > 5`, `{} | logfmt | n > 5 | d > 1s`, `{} | logfmt | v > 1 | drop __error_details__ | d > 1s`, `{} | json | keep __error__ | json | n > 1`, `{} | logfmt | v > 1 | label_format x=__error_details__ | d > 1s`,
		`{} | logfmt | drop __error__ | n > 5 | v > 1`, `{} | unpack | json | n > 5`, `{} | json | line_format "{{ div 1 0 }}" | n > 5`, `{} | logfmt | label_format x="{{ div 1 0 }}" | n > 5`,
		// comparisons that leave a step empty, instant and range, with and without bool, over vector() and over aggregations
		`vector(2) > bool 3`, `vector(2) > 3`, `3 < bool vector(2)`, `sum(vector(2)) == bool 3`, `vector(2) > bool 3 or vector(1)`, `(vector(2) > bool 3) + 1`, `sum(count_over_time({}[10s])) > bool 1e9`, `count_over_time({}[10s]) > bool 1e9`, `vector(2) != bool 2`,
		`{} | line_format "{{ repeat 1000000 .a }}"`, `{} | line_format "{{ trunc 9223372036854775807 .a }}"`, `{} | line_format "{{ substr 0 9223372036854775807 .a }}"`, `{} | line_format "{{ alignLeft 9223372036854775807 .a }}"`, `{} | line_format "{{ add 9223372036854775807 1 }}"`,
	} {
		visit(q)
		if strings.HasPrefix(q, "{}") {
			// the same pipeline inside a metric query: failures while the pipeline is built take another path there
			visit("count_over_time(" + q + " [10s])")
			visit("sum(rate(" + q + " [10s])) / sum(count_over_time({}[10s]))")
		}
	}
	// every construct that takes a string parameter x a small alphabet of degenerate strings (empty, blank, a lone
	// quote / backquote / backslash / NUL, unbalanced brackets, template and pattern openers, a group reference)
	strParams := []string{"", " ", "\"", "`", "\\", "\x00", "[", "(", ")", "{{", "}}", "<", "<_>", "<a><b>", "$1", "${", "a b", "%", "%!s", "é", "\xff", ".", "..", "a.", "[0", "0]"}
	strForms := []string{
		`{} | logfmt a=%s`, `{} | logfmt a, b=%s`, `{} | json a=%s`, `{} | json a, b=%s`, `{} | pattern %s`, `{} | regexp %s`, `{} | line_format %s`, `{} | label_format a=%s`,
		`{} |= %s`, `{} != %s`, `{} |~ %s`, `{} !~ %s`, `{} | a=%s`, `{} | a=~%s`, `{} | drop a=%s`, `{} | keep a=~%s`, `{} |= ip(%s)`, `{} | a = ip(%s)`, `{a=%s}`, `{a=~%s}`,
		`label_replace(count_over_time({}[10s]), %s, "x", "a", "(.*)")`, `label_replace(count_over_time({}[10s]), "d", %s, "a", "(.*)")`, `label_replace(count_over_time({}[10s]), "d", "x", %s, "(.*)")`, `label_replace(count_over_time({}[10s]), "d", "$1", "a", %s)`,
		`count_over_time({} | logfmt a=%s [10s])`, `sum_over_time({} | json v=%s | unwrap v [10s])`,
	}
	for _, f := range strForms {
		for _, p := range strParams {
			q := fmt.Sprintf(f, strconv.Quote(p))
			visit(q)
			if strings.HasPrefix(q, "{} |") {
				visit("count_over_time(" + q + " [10s])")
			}
		}
	}
	// the 3000-deep documents: every JSON-reading stage, under the watchdog
	for i, q := range []string{`{} | json`, `{} | json a`, `{} | json x="a.a.a"`, `{} | unpack`, `{} | logfmt`, `{} | line_format "{{ fromJson __line__ }}"`, `count_over_time({} | json [10s])`, `{} | decolorize | regexp "(?P<x>\\[+)"`} {
		if r.Mine(i) && !stop {
			for _, rg := range []bool{false, true} {
				if !c17Eval(r, c17Input{Query: q, Content: len(c17Data) - 1, Range: rg}) {
					stop = true
				}
			}
		}
	}
	if r.WantSample() {
		r.Sample(map[string]any{"token_sequence": "sum ( rate ( {a=\"b\"} [1s] ) )", "byte_string": "{\xff\"", "contents": len(c17Data)})
	}
	r.Note("bounds", fmt.Sprintf("queries: the %d-query positive corpus; delete/replace/insert/append of every one of %d vocabulary tokens at every position of every %dth corpus query; all token sequences of length <=%d over the vocabulary; all byte strings of length <=3 over 24 bytes; 120 hostile template/regex/pattern/path/parameter/grouping queries; 26 constructs with a string parameter x 26 degenerate strings. Every query that parses is evaluated instant, as a 5-step range query, as a sparse range query and (first content) as a range query with 250-microsecond steps against %d log contents (arbitrary bytes, truncated and deeply nested JSON (3000-deep for the JSON-reading stages), malformed logfmt, extreme numbers/durations/sizes, odd IPs). Watchdog 20 s, a hang is believed only after a second 120 s run", len(cp), len(c17Vocab), step, L, len(c17Data)))
}

func c17Replay(r *vkit.Run, v vkit.Violation) *vkit.Violation {
	var in c17Input
	if err := vkit.DecodeInput(v, &in); err != nil {
		r.HarnessError("bad input: %v", err)
	}
	return vkit.ReplayOne(r, func() {
		if in.Content < 0 {
			c17Query(r, in.Query)
			return
		}
		c17Eval(r, in)
	})
}

var _ = logql.OpEq
