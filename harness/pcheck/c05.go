//go:build verif

package main

import (
	"fmt"
	"regexp"
	"strings"
	"time"

	"github.com/tdakkota/docker-logql/internal/logql"
	"github.com/tdakkota/docker-logql/internal/zzverif/vkit"
)

// ---- generator of ASTs ----------------------------------------------------------------------

func lre(v string) *regexp.Regexp { return regexp.MustCompile("^(?:" + v + ")$") }

func lm(l string, op logql.BinOp, v string) logql.LabelMatcher {
	m := logql.LabelMatcher{Label: logql.Label(l), Op: op, Value: v}
	if op == logql.OpRe || op == logql.OpNotRe {
		m.Re = lre(v)
	}
	return m
}

func genSelectors() []logql.Selector {
	return []logql.Selector{
		{},
		{Matchers: []logql.LabelMatcher{lm("a", logql.OpEq, "b")}},
		{Matchers: []logql.LabelMatcher{lm("a", logql.OpEq, "b"), lm("c", logql.OpNotEq, "d")}},
		{Matchers: []logql.LabelMatcher{lm("a", logql.OpRe, "x.*"), lm("b_1", logql.OpNotRe, "y|z")}},
		{Matchers: []logql.LabelMatcher{lm("job", logql.OpEq, `a"b\c`)}},
		{Matchers: []logql.LabelMatcher{lm("msg", logql.OpEq, "é\t`q`\n")}},
		{Matchers: []logql.LabelMatcher{lm("msg", logql.OpEq, "raw:a\r\nb\tc\\d\re")}},
	}
}

func regexpStage(pattern string) *logql.RegexpLabelParser {
	re := regexp.MustCompile(pattern)
	mp := map[int]logql.Label{}
	for i, n := range re.SubexpNames() {
		if n != "" {
			mp[i] = logql.Label(n)
		}
	}
	return &logql.RegexpLabelParser{Regexp: re, Mapping: mp}
}

func lp(l string, op logql.BinOp, v string) *logql.LabelMatcher {
	m := lm(l, op, v)
	return &m
}

func genPreds() []logql.LabelPredicate {
	a := lp("a", logql.OpEq, "x")
	b := &logql.NumberFilter{Label: "n", Op: logql.OpGt, Value: 5}
	c := lp("c", logql.OpNotRe, "y.+")
	out := []logql.LabelPredicate{
		a, lp("a", logql.OpNotEq, `q"r`), lp("a", logql.OpRe, "x|y"), c, lp("a", logql.OpRe, "^x|y$"), lp("c", logql.OpNotRe, `^z\$`),
		b, &logql.NumberFilter{Label: "n", Op: logql.OpEq, Value: 1.5}, &logql.NumberFilter{Label: "n", Op: logql.OpLte, Value: 1000}, &logql.NumberFilter{Label: "n", Op: logql.OpNotEq, Value: 0},
		&logql.NumberFilter{Label: "n", Op: logql.OpGte, Value: 7}, &logql.NumberFilter{Label: "n", Op: logql.OpLt, Value: 7},
		&logql.DurationFilter{Label: "d", Op: logql.OpGt, Value: 5 * time.Minute}, &logql.DurationFilter{Label: "d", Op: logql.OpLte, Value: 90 * time.Minute},
		&logql.DurationFilter{Label: "d", Op: logql.OpEq, Value: 24 * time.Hour}, &logql.DurationFilter{Label: "d", Op: logql.OpNotEq, Value: 7 * 24 * time.Hour}, &logql.DurationFilter{Label: "d", Op: logql.OpGte, Value: 90 * time.Second}, &logql.DurationFilter{Label: "d", Op: logql.OpLt, Value: 250 * time.Millisecond},
		&logql.BytesFilter{Label: "s", Op: logql.OpGt, Value: 5000}, &logql.BytesFilter{Label: "s", Op: logql.OpLte, Value: 5120}, &logql.BytesFilter{Label: "s", Op: logql.OpEq, Value: 1000000}, &logql.BytesFilter{Label: "s", Op: logql.OpLt, Value: 3}, &logql.BytesFilter{Label: "s", Op: logql.OpGte, Value: 2 << 30},
		&logql.IPFilter{Label: "addr", Op: logql.OpEq, Value: "10.0.0.0/8"}, &logql.IPFilter{Label: "addr", Op: logql.OpNotEq, Value: "::1"},
		// pure chains
		&logql.LabelPredicateBinOp{Left: a, Op: logql.OpAnd, Right: b},
		&logql.LabelPredicateBinOp{Left: a, Op: logql.OpAnd, Right: &logql.LabelPredicateBinOp{Left: b, Op: logql.OpAnd, Right: c}},
		&logql.LabelPredicateBinOp{Left: a, Op: logql.OpOr, Right: b},
		&logql.LabelPredicateBinOp{Left: a, Op: logql.OpOr, Right: &logql.LabelPredicateBinOp{Left: b, Op: logql.OpOr, Right: c}},
		// fully parenthesised mixes
		&logql.LabelPredicateBinOp{Left: &logql.LabelPredicateParen{X: &logql.LabelPredicateBinOp{Left: a, Op: logql.OpOr, Right: b}}, Op: logql.OpAnd, Right: c},
		&logql.LabelPredicateBinOp{Left: a, Op: logql.OpOr, Right: &logql.LabelPredicateParen{X: &logql.LabelPredicateBinOp{Left: b, Op: logql.OpAnd, Right: c}}},
		&logql.LabelPredicateParen{X: a},
		// a parenthesised operand on the right of and (also written as a comma, and as nothing at all)
		&logql.LabelPredicateBinOp{Left: a, Op: logql.OpAnd, Right: &logql.LabelPredicateParen{X: &logql.LabelPredicateBinOp{Left: b, Op: logql.OpOr, Right: c}}},
		&logql.LabelPredicateBinOp{Left: &logql.LabelPredicateParen{X: &logql.LabelPredicateBinOp{Left: a, Op: logql.OpOr, Right: b}}, Op: logql.OpAnd, Right: &logql.LabelPredicateParen{X: &logql.LabelPredicateBinOp{Left: b, Op: logql.OpOr, Right: c}}},
		&logql.LabelPredicateBinOp{Left: &logql.LabelPredicateParen{X: a}, Op: logql.OpAnd, Right: &logql.LabelPredicateParen{X: b}},
	}
	return out
}

func genStages() []logql.PipelineStage {
	var out []logql.PipelineStage
	for _, op := range []logql.BinOp{logql.OpEq, logql.OpNotEq} {
		for _, v := range []string{"err", "", `a"b`, "tab\tnl\n", "é`"} {
			out = append(out, &logql.LineFilter{Op: op, Value: v})
		}
		out = append(out, &logql.LineFilter{Op: op, Value: "10.0.0.1", IP: true}, &logql.LineFilter{Op: op, Value: "192.168.0.0/16", IP: true})
	}
	for _, op := range []logql.BinOp{logql.OpRe, logql.OpNotRe} {
		for _, v := range []string{"err.*", `(?i)warn|\d+`, "", "x.*", "y|z"} {
			out = append(out, &logql.LineFilter{Op: op, Value: v, Re: regexp.MustCompile(v)})
		}
	}
	ex := func(l, e string) logql.LabelExtractionExpr {
		return logql.LabelExtractionExpr{Label: logql.Label(l), Expr: e}
	}
	out = append(out,
		&logql.JSONExpressionParser{}, &logql.JSONExpressionParser{Labels: []logql.Label{"a"}}, &logql.JSONExpressionParser{Labels: []logql.Label{"a", "b_2"}},
		&logql.JSONExpressionParser{Exprs: []logql.LabelExtractionExpr{ex("x", "a.b"), ex("y", `c[0]["k"]`)}}, &logql.JSONExpressionParser{Labels: []logql.Label{"a"}, Exprs: []logql.LabelExtractionExpr{ex("x", "b")}},
		&logql.LogfmtExpressionParser{}, &logql.LogfmtExpressionParser{Labels: []logql.Label{"a", "b"}}, &logql.LogfmtExpressionParser{Exprs: []logql.LabelExtractionExpr{ex("x", "k")}},
		regexpStage(`(?P<method>\w+) (?P<path>[^ ]+)`), regexpStage(`^(\d+) (?P<rest>.*)$`),
		&logql.PatternLabelParser{Pattern: "<a> <b>"}, &logql.PatternLabelParser{Pattern: `[<_>] "<m>"`},
		&logql.UnpackLabelParser{}, &logql.DecolorizeExpr{},
		&logql.LineFormat{Template: "{{.a}} {{__line__}}"}, &logql.LineFormat{Template: `{{ .a | ToUpper }}"q"`},
		&logql.LabelFormatExpr{Labels: []logql.RenameLabel{{Label: "src", To: "dst"}}},
		&logql.LabelFormatExpr{Labels: []logql.RenameLabel{{Label: "s1", To: "d1"}, {Label: "s2", To: "d2"}}},
		&logql.LabelFormatExpr{Values: []logql.LabelTemplate{{Label: "d", Template: "{{.a}}-{{.b}}"}}},
		&logql.LabelFormatExpr{Labels: []logql.RenameLabel{{Label: "s1", To: "d1"}}, Values: []logql.LabelTemplate{{Label: "d2", Template: "x"}}},
		&logql.DropLabelsExpr{Labels: []logql.Label{"a"}}, &logql.DropLabelsExpr{Labels: []logql.Label{"a", "b"}},
		&logql.DropLabelsExpr{Matchers: []logql.LabelMatcher{lm("a", logql.OpEq, "v")}}, &logql.DropLabelsExpr{Labels: []logql.Label{"a"}, Matchers: []logql.LabelMatcher{lm("b", logql.OpRe, "v.*"), lm("c", logql.OpNotEq, "")}},
		&logql.KeepLabelsExpr{Labels: []logql.Label{"a"}}, &logql.KeepLabelsExpr{Labels: []logql.Label{"a"}, Matchers: []logql.LabelMatcher{lm("b", logql.OpNotRe, "v")}},
		&logql.DistinctFilter{Labels: []logql.Label{"a"}}, &logql.DistinctFilter{Labels: []logql.Label{"a", "b"}},
	)
	for _, pr := range genPreds() {
		out = append(out, &logql.LabelFilter{Pred: pr})
	}
	return out
}

func f64(v float64) *float64 { return &v }
func i32(v int) *int         { return &v }

type rangeVariant struct {
	op     logql.RangeOp
	unwrap bool
	param  *float64
	canGrp bool
}

var rangeVariants = []rangeVariant{
	{op: logql.RangeOpCount}, {op: logql.RangeOpRate}, {op: logql.RangeOpBytes}, {op: logql.RangeOpBytesRate}, {op: logql.RangeOpAbsent},
	{op: logql.RangeOpRate, unwrap: true}, {op: logql.RangeOpRateCounter, unwrap: true}, {op: logql.RangeOpSum, unwrap: true}, {op: logql.RangeOpAbsent, unwrap: true},
	{op: logql.RangeOpAvg, unwrap: true, canGrp: true}, {op: logql.RangeOpMin, unwrap: true, canGrp: true}, {op: logql.RangeOpMax, unwrap: true, canGrp: true},
	{op: logql.RangeOpStdvar, unwrap: true, canGrp: true}, {op: logql.RangeOpStddev, unwrap: true, canGrp: true}, {op: logql.RangeOpFirst, unwrap: true, canGrp: true}, {op: logql.RangeOpLast, unwrap: true, canGrp: true},
	{op: logql.RangeOpQuantile, unwrap: true, canGrp: true, param: f64(0.99)}, {op: logql.RangeOpQuantile, unwrap: true, canGrp: true, param: f64(1)},
}

func genUnwraps() []*logql.UnwrapExpr {
	return []*logql.UnwrapExpr{
		{Label: "v"},
		{Op: "bytes", Label: "v"},
		{Op: "duration", Label: "lat"},
		{Op: "duration_seconds", Label: "lat"},
		{Label: "v", Filters: []logql.LabelMatcher{lm("a", logql.OpEq, "x")}},
		{Label: "v", Filters: []logql.LabelMatcher{lm("a", logql.OpNotRe, "x.*"), lm("__error__", logql.OpEq, "")}},
	}
}

func genGroupings() []*logql.Grouping {
	return []*logql.Grouping{
		nil,
		{Labels: []logql.Label{"a"}},
		{Labels: []logql.Label{"a", "b"}},
		{Labels: nil},
		{Without: true, Labels: []logql.Label{"a"}},
		{Without: true, Labels: nil},
	}
}

func genRanges(sels []logql.Selector, stages []logql.PipelineStage) []logql.Expr {
	var out []logql.Expr
	unwraps := genUnwraps()
	grps := genGroupings()
	durs := []time.Duration{5 * time.Minute, 90 * time.Minute, 24 * time.Hour, 7 * 24 * time.Hour, 90 * time.Second, 250 * time.Millisecond}
	offs := []*logql.OffsetExpr{nil, {Duration: 5 * time.Minute}, {Duration: 24 * time.Hour}}
	k := 0
	for _, rv := range rangeVariants {
		uws := []*logql.UnwrapExpr{nil}
		if rv.unwrap {
			uws = unwraps
		}
		for _, uw := range uws {
			gs := grps[:1]
			if rv.canGrp {
				gs = grps
			}
			for _, g := range gs {
				for pi := 0; pi < 3; pi++ {
					k++
					e := &logql.RangeAggregationExpr{Op: rv.op, Parameter: rv.param, Grouping: g}
					e.Range = logql.LogRangeExpr{Sel: sels[k%len(sels)], Range: durs[k%len(durs)], Offset: offs[k%len(offs)], Unwrap: uw}
					switch pi {
					case 1:
						e.Range.Pipeline = []logql.PipelineStage{stages[k%len(stages)]}
					case 2:
						e.Range.Pipeline = []logql.PipelineStage{stages[k%len(stages)], stages[(k*7+3)%len(stages)]}
					}
					if ambiguous(e.Range.Pipeline) {
						e.Range.Pipeline = e.Range.Pipeline[:1]
					}
					out = append(out, e)
				}
			}
		}
	}
	return out
}

func genVecAggs(inner []logql.Expr) []logql.Expr {
	var out []logql.Expr
	grps := genGroupings()
	k := 0
	for _, op := range []logql.VectorOp{logql.VectorOpSum, logql.VectorOpAvg, logql.VectorOpCount, logql.VectorOpMax, logql.VectorOpMin, logql.VectorOpStddev, logql.VectorOpStdvar} {
		for _, g := range grps {
			k++
			out = append(out, &logql.VectorAggregationExpr{Op: op, Grouping: g, Expr: inner[k%len(inner)].(logql.MetricExpr)})
		}
	}
	for _, op := range []logql.VectorOp{logql.VectorOpTopk, logql.VectorOpBottomk} {
		for _, g := range grps {
			for _, kk := range []int{1, 10} {
				k++
				out = append(out, &logql.VectorAggregationExpr{Op: op, Parameter: i32(kk), Grouping: g, Expr: inner[k%len(inner)].(logql.MetricExpr)})
			}
		}
	}
	for _, op := range []logql.VectorOp{logql.VectorOpSort, logql.VectorOpSortDesc} {
		k++
		out = append(out, &logql.VectorAggregationExpr{Op: op, Expr: inner[k%len(inner)].(logql.MetricExpr)})
	}
	return out
}

var allBinOps = []logql.BinOp{logql.OpAdd, logql.OpSub, logql.OpMul, logql.OpDiv, logql.OpMod, logql.OpPow, logql.OpEq, logql.OpNotEq, logql.OpGt, logql.OpGte, logql.OpLt, logql.OpLte, logql.OpAnd, logql.OpOr, logql.OpUnless}

func genBinOps(atoms []logql.Expr) []logql.Expr {
	var out []logql.Expr
	mods := []logql.BinOpModifier{
		{}, {ReturnBool: true}, {Op: "on", OpLabels: []logql.Label{"a"}}, {Op: "ignoring", OpLabels: []logql.Label{"a", "b"}}, {Op: "on", OpLabels: nil},
		{Op: "on", OpLabels: []logql.Label{"a"}, Group: "left", Include: []logql.Label{"c"}}, {Op: "ignoring", OpLabels: []logql.Label{"a"}, Group: "right"},
		{ReturnBool: true, Op: "on", OpLabels: []logql.Label{"a"}, Group: "left"},
		// a label that is both ignored for matching and copied over
		{Op: "ignoring", OpLabels: []logql.Label{"a"}, Group: "left", Include: []logql.Label{"a"}}, {Op: "ignoring", OpLabels: []logql.Label{"a", "b"}, Group: "right", Include: []logql.Label{"b", "c"}},
	}
	lits := []logql.Expr{&logql.LiteralExpr{Value: 2}, &logql.LiteralExpr{Value: -1.5}, &logql.LiteralExpr{Value: 1000}, &logql.VectorExpr{Value: 1}, &logql.VectorExpr{Value: 0.5}}
	k := 0
	for _, op := range allBinOps {
		for mi, m := range mods {
			k++
			l, r := atoms[k%len(atoms)], atoms[(k*5+1)%len(atoms)]
			out = append(out, &logql.BinOpExpr{Left: l, Op: op, Modifier: m, Right: r})
			if !op.IsLogic() && mi < 2 {
				// a literal may sit on either side of a non-logical operator
				out = append(out, &logql.BinOpExpr{Left: l, Op: op, Modifier: m, Right: lits[k%len(lits)]})
				out = append(out, &logql.BinOpExpr{Left: lits[(k+1)%len(lits)], Op: op, Modifier: m, Right: r})
			}
		}
	}
	// parenthesised nestings: both operands binary operations
	for i, op := range allBinOps {
		a := &logql.ParenExpr{X: out[(i*3)%len(out)]}
		b := &logql.ParenExpr{X: out[(i*11+2)%len(out)]}
		out = append(out, &logql.BinOpExpr{Left: a, Op: op, Right: b})
	}
	// operators of different precedence without parentheses: the tighter one groups first on either side
	x, y, z := atoms[0], atoms[1%len(atoms)], atoms[2%len(atoms)]
	// every pair of operators of different precedence levels (or < and, unless < comparisons < + - < * / % < ^)
	level := map[logql.BinOp]int{logql.OpOr: 1, logql.OpAnd: 2, logql.OpUnless: 2, logql.OpEq: 3, logql.OpNotEq: 3, logql.OpGt: 3, logql.OpGte: 3, logql.OpLt: 3, logql.OpLte: 3,
		logql.OpAdd: 4, logql.OpSub: 4, logql.OpMul: 5, logql.OpDiv: 5, logql.OpMod: 5, logql.OpPow: 6}
	var mix [][2]logql.BinOp
	for _, lo := range allBinOps {
		for _, hi := range allBinOps {
			if level[lo] < level[hi] {
				mix = append(mix, [2]logql.BinOp{lo, hi})
			}
		}
	}
	for mi, m := range mix {
		lo, hi := m[0], m[1]
		out = append(out, &logql.BinOpExpr{Left: x, Op: lo, Right: &logql.BinOpExpr{Left: y, Op: hi, Right: z}}) // x lo y hi z
		out = append(out, &logql.BinOpExpr{Left: &logql.BinOpExpr{Left: x, Op: hi, Right: y}, Op: lo, Right: z}) // x hi y lo z
		// a modifier belongs to the one operation it is written on: on the tighter one only, on the looser one only
		md := mods[1+mi%(len(mods)-1)]
		if md.ReturnBool && level[hi] != 3 { // bool goes with comparisons only
			md = mods[2]
		}
		out = append(out, &logql.BinOpExpr{Left: &logql.BinOpExpr{Left: x, Op: hi, Modifier: md, Right: y}, Op: lo, Right: z}) // x hi mod y lo z
		ml := mods[2+mi%3]
		if lo.IsLogic() && ml.Group != "" {
			ml = mods[2] // no group_left / group_right on set operators
		}
		out = append(out, &logql.BinOpExpr{Left: &logql.BinOpExpr{Left: x, Op: hi, Right: y}, Op: lo, Modifier: ml, Right: z}) // x hi y lo mod z
		out = append(out, &logql.BinOpExpr{Left: x, Op: lo, Modifier: ml, Right: &logql.BinOpExpr{Left: y, Op: hi, Right: z}}) // x lo mod y hi z
	}
	// an operation with a number as an operand of a set operator: a vector, wherever the number stands
	for _, lo := range []logql.BinOp{logql.OpOr, logql.OpAnd, logql.OpUnless} {
		for _, hi := range []logql.BinOp{logql.OpAdd, logql.OpSub, logql.OpMul, logql.OpDiv, logql.OpMod, logql.OpPow, logql.OpGt, logql.OpEq} {
			lit := lits[int(hi)%2]
			out = append(out,
				&logql.BinOpExpr{Left: x, Op: lo, Right: &logql.BinOpExpr{Left: lit, Op: hi, Right: z}}, // x or 2 / z
				&logql.BinOpExpr{Left: x, Op: lo, Right: &logql.BinOpExpr{Left: z, Op: hi, Right: lit}}, // x or z / 2
				&logql.BinOpExpr{Left: &logql.BinOpExpr{Left: lit, Op: hi, Right: x}, Op: lo, Right: z}, // 2 / x or z
			)
		}
	}
	return out
}

// ambiguous reports stage sequences whose text denotes something else: `drop a` / `keep a` directly
// followed by a `!=` / `!~` line filter reads as a drop/keep matcher in LogQL's own grammar.
func ambiguous(stages []logql.PipelineStage) bool {
	for i := 0; i+1 < len(stages); i++ {
		plainTail := false
		switch s := stages[i].(type) {
		case *logql.DropLabelsExpr:
			plainTail = len(s.Matchers) == 0
		case *logql.KeepLabelsExpr:
			plainTail = len(s.Matchers) == 0
		}
		if lf, ok := stages[i+1].(*logql.LineFilter); ok && plainTail && (lf.Op == logql.OpNotEq || lf.Op == logql.OpNotRe) {
			return true
		}
	}
	return false
}

// corpus builds the positive corpus for a tier.
func corpus(thorough bool) []logql.Expr {
	sels := genSelectors()
	stages := genStages()
	var out []logql.Expr
	// log queries: every stage alone, every ordered pair (thorough: triples on a lattice)
	k := 0
	for _, s := range sels {
		out = append(out, &logql.LogExpr{Sel: s})
	}
	for _, a := range stages {
		k++
		out = append(out, &logql.LogExpr{Sel: sels[k%len(sels)], Pipeline: []logql.PipelineStage{a}})
	}
	for _, a := range stages {
		for _, b := range stages {
			k++
			if ambiguous([]logql.PipelineStage{a, b}) {
				continue
			}
			out = append(out, &logql.LogExpr{Sel: sels[k%len(sels)], Pipeline: []logql.PipelineStage{a, b}})
		}
	}
	if thorough {
		for i, a := range stages {
			for j, b := range stages {
				for c := (i + j) % 9; c < len(stages); c += 9 {
					k++
					if ambiguous([]logql.PipelineStage{a, b, stages[c]}) {
						continue
					}
					out = append(out, &logql.LogExpr{Sel: sels[k%len(sels)], Pipeline: []logql.PipelineStage{a, b, stages[c]}})
				}
			}
		}
	}
	ranges := genRanges(sels, stages)
	out = append(out, ranges...)
	vecs := genVecAggs(ranges)
	out = append(out, vecs...)
	nested := genVecAggs(vecs)
	out = append(out, nested...)
	var atoms []logql.Expr
	for i := 0; i < len(ranges); i += 17 {
		atoms = append(atoms, ranges[i])
	}
	for i := 0; i < len(vecs); i += 13 {
		atoms = append(atoms, vecs[i])
	}
	out = append(out, genBinOps(atoms)...)
	for i := 0; i < len(vecs); i += 9 {
		out = append(out, &logql.LabelReplaceExpr{Expr: vecs[i].(logql.MetricExpr), DstLabel: "dst", Replacement: "$1-x", SrcLabel: "src", Regex: "(.*)-(\\d+)", Re: lre("(.*)-(\\d+)")})
	}
	out = append(out, &logql.LiteralExpr{Value: 7}, &logql.LiteralExpr{Value: -1.5}, &logql.VectorExpr{Value: 3})
	return out
}

// ---- the check ------------------------------------------------------------------------------

type c05Input struct {
	Index     int    `json:"index"` // index into the corpus of the tier
	Tier      string `json:"tier"`
	Style     int    `json:"style"` // layout
	Redundant bool   `json:"redundant"`
	RangeLast bool   `json:"range_last"`
	PrefixGrp bool   `json:"prefix_grouping"`
	AndStyle  int    `json:"and_style"`
	NumStyle  int    `json:"num_style,omitempty"` // spelling of number literals (see numText)
	DurStyle  int    `json:"dur_style,omitempty"` // spelling of durations (see durText)
	// negative cases
	Negative string `json:"negative,omitempty"` // "static:<n>" or "corrupt:<class>:<pos>"
	Text     string `json:"text,omitempty"`
}

var corpusCache = map[bool][]logql.Expr{}

func getCorpus(thorough bool) []logql.Expr {
	if c, ok := corpusCache[thorough]; ok {
		return c
	}
	c := corpus(thorough)
	corpusCache[thorough] = c
	return c
}

func parseSafe(text string) (e logql.Expr, err error, pan string) {
	defer func() {
		if p := recover(); p != nil {
			pan = fmt.Sprint(p)
		}
	}()
	e, err = logql.Parse(text, logql.ParseOptions{})
	return e, err, ""
}

func c05Tokens(in c05Input) ([]tok, logql.Expr) {
	e := getCorpus(in.Tier == "thorough")[in.Index]
	numStyle, durStyle = in.NumStyle, in.DurStyle
	defer func() { numStyle, durStyle = 0, 0 }()
	pr := &printer{redundant: in.Redundant, rangeLast: in.RangeLast, prefixGrp: in.PrefixGrp, andStyle: in.AndStyle}
	return pr.expr(e), e
}

func c05CheckPositive(r *vkit.Run, in c05Input) {
	r.Begin("C05/positive", in)
	toks, e := c05Tokens(in)
	text := layout(toks, in.Style)
	in.Text = text
	got, err, pan := parseSafe(text)
	r.Eval()
	r.Step(len(toks))
	want := dumpExpr(e)
	switch {
	case pan != "":
		r.Fail("C05/positive", in, nil, "panic: "+pan, want, "parser panicked on "+text, "")
	case err != nil:
		r.Fail("C05/positive", in, nil, "error: "+err.Error(), want, fmt.Sprintf("valid query rejected: %s", text), c05Classify(in, err))
	case dumpExpr(got) != want:
		r.Fail("C05/positive", in, nil, dumpExpr(got), want, fmt.Sprintf("query parsed into another structure: %s", text), "")
	}
}

func c05Classify(in c05Input, err error) string { return "" }

// static-rule violations: each must be rejected.
var c05Static = []string{
	`quantile_over_time({a="b"} | unwrap v [5m])`,
	`sum_over_time(0.5, {a="b"} | unwrap v [5m])`,
	`count_over_time(0.5, {a="b"}[5m])`,
	`count_over_time({a="b"}[5m]) by (a)`,
	`sum_over_time({a="b"} | unwrap v [5m]) by (a)`,
	`rate({a="b"}[5m]) without (a)`,
	`sort by (a) (rate({a="b"}[5m]))`,
	`sort_desc(rate({a="b"}[5m])) by (a)`,
	`topk(rate({a="b"}[5m]))`,
	`topk(0, rate({a="b"}[5m]))`,
	`bottomk(-1, rate({a="b"}[5m]))`,
	`sum(2, rate({a="b"}[5m]))`,
	`sort(1, rate({a="b"}[5m]))`,
	`sort_desc(2, rate({a="b"}[5m]))`,
	`count(1, rate({a="b"}[5m]))`,
	`avg(1, rate({a="b"}[5m]))`,
	`max(3, rate({a="b"}[5m])) by (a)`,
	`min by (a) (3, rate({a="b"}[5m]))`,
	`stddev(1, rate({a="b"}[5m]))`,
	`stdvar(1, rate({a="b"}[5m]))`,
	`sum by (a b) (rate({a="b"}[5m]))`,
	`sum by (a) (rate({a="b"}[5m])) by (b)`,
	`topk by (a) (2, rate({a="b"}[5m])) without (b)`,
	`avg_over_time({a="b"} | unwrap v [5m]) by (a) by (b)`,
	`sum(rate({a="b"}[5m])) without (a b)`,
	`rate({a="b"}[5m]) + on (a b) rate({a="b"}[5m])`,
	`rate({a="b"}[5m]) + ignoring (a) group_left (b c) rate({a="b"}[5m])`,
	`avg_over_time({a="b"} | unwrap v [5m]) by (a b)`,
	`{a="b"} | label_format x=a, x=b`,
	`{a="b"} | label_format x="t", x=b`,
	`{a="b"} | label_format x=a, x="t"`,
	`{a="b"} | label_format x="t", x="u"`,
	`{a="b"} | label_format x=a, y=b, x="{{.z}}"`,
	`{a="b"} | label_format y="t", x=a, z=b, x="u"`,
	`{a=~"("}`,
	`{a!~"[z-a]"}`,
	`{a="b"} |~ "("`,
	`{a="b"} !~ "*"`,
	`{a="b"} | x=~"("`,
	`{a="b"} | regexp "(?P<x>"`,
	`{a="b"} | regexp "(?P<x>a)(?P<x>b)"`,
	`{a="b"} | drop x=~"("`,
	`{a="b"} | keep x!~"("`,
	`label_replace(rate({a="b"}[5m]), "d", "r", "s", "(")`,
	`sum_over_time({a="b"} | unwrap v | x=~"(" [5m])`,
	`{a="b"} | unwrap v`,
	`sum_over_time({a="b"}[5m])`,
	`avg_over_time({a="b"} | json [5m])`,
	`count_over_time({a="b"} | unwrap v [5m])`,
	`bytes_over_time({a="b"} | unwrap bytes(v) [5m])`,
	`bytes_rate({a="b"} | unwrap v [5m])`,
	`rate({a="b"}[5m]) or 1 ^ 2`,
	`rate({a="b"}[5m]) unless 1 > bool 0`,
	`rate({a="b"}[5m]) and 2 * 3`,
	`1 and rate({a="b"}[5m])`,
	`rate({a="b"}[5m]) or 2`,
	`rate({a="b"}[5m]) unless 0.5`,
	`{a="b"} |~ ip("10.0.0.1")`,
	`{a="b"} !~ ip("10.0.0.1")`,
	`{a="b"} | x == "s"`,
	`{a="b"} | x > "s"`,
	`{a="b"} | x = 5`,
	`{a="b"} | x =~ 5`,
	`{a="b"} | x = 5m`,
	`{a="b"} | x =~ 5kb`,
	`{a="b"} | addr =~ ip("10.0.0.1")`,
	`{a="b"} | addr > ip("10.0.0.1")`,
	`rate({a="b"}[5x])`,
	`rate({a="b"}[1d1w])`,
	`{a="b"} | x > 5zz`,
	`{a="b"} | distinct`,
	`{a="b"} | keep`,
	`{a="b"} | pattern`,
	`{a="b"} | line_format`,
	`{a="b"} | json x=`,
	`vector()`,
	`vector("a")`,
	`{a="b"`,
	`{a="b",}`,
	`{="b"}`,
	`{a}`,
	`{a=b}`,
	`rate({a="b"})`,
	`rate({a="b"}[])`,
	`rate([5m])`,
	`rate({a="b"}[5m]) +`,
	`* rate({a="b"}[5m])`,
	`sum by (a (rate({a="b"}[5m]))`,
	`"just a string"`,
	``,
}

func bracketBalanced(toks []tok) bool {
	var stack []string
	pair := map[string]string{")": "(", "]": "[", "}": "{"}
	for _, t := range toks {
		if t.kind != tPunct {
			continue
		}
		switch t.text {
		case "(", "[", "{":
			stack = append(stack, t.text)
		case ")", "]", "}":
			if len(stack) == 0 || stack[len(stack)-1] != pair[t.text] {
				return false
			}
			stack = stack[:len(stack)-1]
		}
	}
	return len(stack) == 0
}

var strictBinOps = map[string]bool{"*": true, "/": true, "%": true, "^": true, "==": true, ">": true, ">=": true, "<": true, "<=": true, "and": true, "or": true, "unless": true}

// c05Corruptions applies every single-token corruption to toks and classifies it:
// mustReject = invalid by an argument independent of the parser.
func c05Corruptions(toks []tok, visit func(class string, pos int, out []tok, mustReject bool)) {
	clone := func() []tok { return append([]tok(nil), toks...) }
	for i, t := range toks {
		// delete
		del := append(clone()[:i], toks[i+1:]...)
		must := !bracketBalanced(del)
		if t.kind == tString && i >= 2 && toks[i-1].kind == tPunct && (toks[i-1].text == "=" || toks[i-1].text == "!=" || toks[i-1].text == "=~" || toks[i-1].text == "!~") && insideBraces(toks, i) {
			must = true // matcher without value
		}
		if i >= 1 && toks[i-1].text == "[" && i+1 < len(toks) && toks[i+1].text == "]" {
			must = true // empty range
		}
		if t.kind == tPunct && t.text == "," && i >= 1 && i+1 < len(toks) && toks[i-1].kind == tWord && toks[i+1].kind == tWord && inLabelList(toks, i) {
			must = true // two label names without a comma in by/without/on/ignoring/group_* lists
		}
		visit("delete", i, del, must)
		// duplicate
		dup := append(append(clone()[:i+1], t), toks[i+1:]...)
		must = !bracketBalanced(dup)
		if (t.kind == tWord || t.kind == tPunct) && strictBinOps[t.text] && isMetricBinOpAt(toks, i) {
			must = true // doubled binary operator
		}
		visit("duplicate", i, dup, must)
		// stray bracket inserted before the token
		for _, b := range []string{"(", ")", "[", "]", "{", "}"} {
			ins := append(append(clone()[:i], p(b)), toks[i:]...)
			visit("insert"+b, i, ins, !bracketBalanced(ins))
		}
		// a two-character operator written as two tokens (significant whitespace): never valid
		if t.kind == tPunct && len(t.text) == 2 && strings.Contains("=~ != !~ |= |~ == >= <=", t.text) {
			sp := append(append(clone()[:i], p(t.text[:1]), p(t.text[1:])), toks[i+1:]...)
			visit("split", i, sp, true)
		}
		// a label name written as a string literal: names are identifiers, a quoted name is never valid
		if t.kind == tWord && i+1 < len(toks) && toks[i+1].kind == tPunct && i >= 1 && toks[i-1].kind == tPunct &&
			(toks[i-1].text == "{" || toks[i-1].text == "," || toks[i-1].text == "|") {
			switch toks[i+1].text {
			case "=", "!=", "=~", "!~", "==", ">", ">=", "<", "<=":
				qn := clone()
				qn[i] = st(t.text)
				visit("quote-name", i, qn, true)
			}
		}
		// swap with the next token
		if i+1 < len(toks) {
			sw := clone()
			sw[i], sw[i+1] = sw[i+1], sw[i]
			visit("swap", i, sw, !bracketBalanced(sw))
		}
	}
}

// inLabelList: position i lies inside the parenthesised list that follows by / without / on / ignoring / group_left / group_right.
func inLabelList(toks []tok, i int) bool {
	depth := 0
	for k := i - 1; k >= 0; k-- {
		if toks[k].kind != tPunct {
			continue
		}
		switch toks[k].text {
		case ")":
			depth++
		case "(":
			if depth == 0 {
				if k == 0 || toks[k-1].kind != tWord {
					return false
				}
				switch toks[k-1].text {
				case "by", "without", "on", "ignoring", "group_left", "group_right":
					return true
				}
				return false
			}
			depth--
		}
	}
	return false
}

func insideBraces(toks []tok, i int) bool {
	depth := 0
	for k := 0; k < i; k++ {
		if toks[k].kind == tPunct && toks[k].text == "{" {
			depth++
		}
		if toks[k].kind == tPunct && toks[k].text == "}" {
			depth--
		}
	}
	return depth > 0
}

// isMetricBinOpAt: the token is a binary operator between two metric operands (previous token closes an
// operand, next token opens one) and sits outside braces and brackets.
func isMetricBinOpAt(toks []tok, i int) bool {
	if i == 0 || i+1 >= len(toks) || insideBraces(toks, i) {
		return false
	}
	prev, next := toks[i-1], toks[i+1]
	closes := prev.text == ")" && prev.kind == tPunct
	opens := next.kind == tWord || (next.kind == tPunct && next.text == "(")
	// pipelines also contain comparison tokens: they follow a label name, never ")"
	return closes && opens
}

func c05CheckNegative(r *vkit.Run, in c05Input, text string, mustReject bool) {
	in.Text = text
	r.Begin("C05/negative", in)
	_, err, pan := parseSafe(text)
	r.Eval()
	r.Step(1)
	switch {
	case pan != "":
		r.Fail("C05/negative", in, nil, "panic: "+pan, "error", "parser panicked on "+text, "")
	case mustReject && err == nil:
		r.Fail("C05/negative", in, nil, "accepted", "rejected with an error", fmt.Sprintf("text that violates the grammar or a static rule is accepted: %s", text), "")
	}
}

func c05Run(r *vkit.Run) {
	thorough := r.Thorough()
	tier := "quick"
	if thorough {
		tier = "thorough"
	}
	cp := getCorpus(thorough)
	idx := 0
	mustRejected, corruptions := int64(0), int64(0)
	for i := range cp {
		idx++
		if !r.Mine(idx) {
			continue
		}
		if r.Stop() {
			break
		}
		base := c05Input{Index: i, Tier: tier}
		// six layouts + printer options
		variants := []c05Input{}
		for style := 0; style <= 7; style++ {
			v := base
			v.Style = style
			variants = append(variants, v)
		}
		for _, opt := range []c05Input{{Redundant: true}, {RangeLast: true}, {PrefixGrp: true}, {AndStyle: 1}, {AndStyle: 2}, {Redundant: true, RangeLast: true, PrefixGrp: true, Style: 3}, {NumStyle: 1}, {NumStyle: 2}, {NumStyle: 3, Style: 1}, {DurStyle: 1}, {DurStyle: 2, Style: 2}} {
			v := opt
			v.Index, v.Tier = i, tier
			variants = append(variants, v)
		}
		seen := map[string]bool{}
		for _, v := range variants {
			toks, _ := c05Tokens(v)
			text := layout(toks, v.Style)
			if seen[text] {
				continue
			}
			seen[text] = true
			c05CheckPositive(r, v)
		}
		r.NonTrivial()
		r.State(dumpExpr(cp[i]))
		if r.WantSample() && i%97 == 5 {
			toks, _ := c05Tokens(base)
			r.Sample(map[string]any{"query": layout(toks, 0), "structure": dumpExpr(cp[i])})
		}
		// single-token corruptions of the plain layout
		if thorough || i%5 == 0 {
			toks, _ := c05Tokens(base)
			c05Corruptions(toks, func(class string, pos int, out []tok, must bool) {
				corruptions++
				if must {
					mustRejected++
				}
				in := base
				in.Negative = fmt.Sprintf("corrupt:%s:%d", class, pos)
				c05CheckNegative(r, in, layout(out, 0), must)
			})
		}
	}
	// dotted names: between two stretches of the corpus and at its end (the parser has then seen calls of both kinds)
	for n := range c05Dotted {
		idx++
		if r.Mine(idx) && !r.Stop() {
			c05CheckDots(r, n)
		}
	}
	if r.Shard == 0 {
		for n, q := range c05Static {
			c05CheckNegative(r, c05Input{Negative: fmt.Sprintf("static:%d", n), Tier: tier}, q, true)
			mustRejected++
		}
	}
	r.Count("corruptions_generated", corruptions)
	r.Count("negative_cases_that_must_be_rejected", mustRejected)
	r.Note("bounds", fmt.Sprintf("%d generated ASTs (all stage kinds with 2-5 argument variants, pipelines of <=%d stages, 18 range-function variants x unwrap forms x groupings x offsets x [range] positions, vector aggregations incl. nested, binary operators x modifiers, label_replace, literals) x up to 14 textual renderings (8 layouts, redundant parentheses, range position, grouping position, and/,/juxtaposition, 4 spellings of number literals, 3 of durations); %d static-rule violations; every single-token corruption (delete, duplicate, swap, stray bracket, split operator, quoted label name) of %s corpus queries", len(cp), map[bool]int{false: 2, true: 3}[thorough], len(c05Static), map[bool]string{false: "a fifth of the", true: "all"}[thorough]))
}

// c05Dotted: queries whose label names contain dots. With ParseOptions.AllowDots they are names like any other
// (the dump shows them unchanged); without it they violate the grammar. The option belongs to one call: what an
// earlier call was given does not matter.
var c05Dotted = []struct{ text, name string }{
	{`{service.name="api"}`, "service.name"},
	{`{a="b"} | k8s.pod="x"`, "k8s.pod"},
	{`sum by (k8s.pod) (rate({a="b"}[1m]))`, "k8s.pod"},
	{`{a="b", k8s.pod.name=~"x.*"} |= "err"`, "k8s.pod.name"},
	{`count_over_time({a="b"} | json | http.status >= 500 [5m])`, "http.status"},
}

func c05CheckDots(r *vkit.Run, n int) {
	in := c05Input{Negative: fmt.Sprintf("dots:%d", n), Text: c05Dotted[n].text}
	r.Begin("C05/dots", in)
	parse := func(dots bool) (string, error) {
		var e logql.Expr
		var err error
		func() {
			defer func() {
				if p := recover(); p != nil {
					err = fmt.Errorf("panic: %v", p)
				}
			}()
			e, err = logql.Parse(in.Text, logql.ParseOptions{AllowDots: dots})
		}()
		if err != nil {
			return "", err
		}
		return dumpExpr(e), nil
	}
	// a dot alone, or at the start, is no name under either setting
	for _, bad := range []string{`{.="x"}`, `{a="b", .=~"x.*"}`, `{.a="x"}`, `{a="b"} | .="x"`} {
		for _, dots := range []bool{true, false} {
			var err error
			func() {
				defer func() {
					if p := recover(); p != nil {
						err = fmt.Errorf("panic: %v", p)
					}
				}()
				_, err = logql.Parse(bad, logql.ParseOptions{AllowDots: dots})
			}()
			r.Eval()
			if err == nil {
				r.Fail("C05/dots", in, nil, "accepted", "rejected", fmt.Sprintf("%s is accepted (AllowDots=%v): a dot alone or in front is no label name", bad, dots), "")
				return
			}
		}
	}
	// with, without, with, without: the second and fourth call follow one that allowed dots
	for k, dots := range []bool{true, false, true, false, false} {
		d, err := parse(dots)
		r.Eval()
		switch {
		case dots && err != nil:
			r.Fail("C05/dots", in, nil, "error: "+err.Error(), "accepted", fmt.Sprintf("call %d: with AllowDots, %s is rejected: %v", k+1, in.Text, err), "")
			return
		case dots && !strings.Contains(d, c05Dotted[n].name):
			r.Fail("C05/dots", in, nil, d, c05Dotted[n].name, fmt.Sprintf("call %d: with AllowDots, the name %s is not in the parsed structure of %s", k+1, c05Dotted[n].name, in.Text), "")
			return
		case !dots && err == nil:
			r.Fail("C05/dots", in, nil, d, "rejected", fmt.Sprintf("call %d: without AllowDots, %s is accepted (the call before it %s dots)", k+1, in.Text, map[bool]string{true: "allowed", false: "did not allow"}[k > 0 && k != 4]), "")
			return
		}
	}
}

func c05Replay(r *vkit.Run, v vkit.Violation) *vkit.Violation {
	var in c05Input
	if err := vkit.DecodeInput(v, &in); err != nil {
		r.HarnessError("bad input: %v", err)
	}
	return vkit.ReplayOne(r, func() {
		if in.Negative == "" {
			c05CheckPositive(r, in)
			return
		}
		if strings.HasPrefix(in.Negative, "dots:") {
			var n int
			fmt.Sscanf(in.Negative, "dots:%d", &n)
			c05CheckDots(r, n)
			return
		}
		must := strings.HasPrefix(in.Negative, "static:")
		if strings.HasPrefix(in.Negative, "corrupt:") {
			toks, _ := c05Tokens(c05Input{Index: in.Index, Tier: in.Tier})
			c05Corruptions(toks, func(class string, pos int, out []tok, m bool) {
				if fmt.Sprintf("corrupt:%s:%d", class, pos) == in.Negative {
					must = m
				}
			})
		}
		c05CheckNegative(r, in, in.Text, must)
	})
}
