//go:build verif

// Command dcheck hosts the checks that drive the Docker storage side of docker-logql
// (internal/dockerlog) through a fake API client under the vsched explorer.
package main

import (
	"context"
	"fmt"
	"github.com/tdakkota/docker-logql/internal/iterators"
	"github.com/tdakkota/docker-logql/internal/logql"
	"regexp"
	"sort"
	"strings"

	"go.opentelemetry.io/otel/trace/noop"

	"github.com/tdakkota/docker-logql/internal/dockerlog"
	"github.com/tdakkota/docker-logql/internal/logql/logqlengine"
	"github.com/tdakkota/docker-logql/internal/logstorage"
	"github.com/tdakkota/docker-logql/internal/otelstorage"
	"github.com/tdakkota/docker-logql/internal/zzverif/fakedocker"
	"github.com/tdakkota/docker-logql/internal/zzverif/vsched"
)

const sec = int64(1e9)

// gate makes every ContainerLogs call wait at its return until all other threads are
// done, blocked or gated too, and then releases the gated calls in the order given by perm
// (container indexes). With default scheduling choices this yields exactly the completion
// order perm, whether the implementation opens logs concurrently or one after another.
type gate struct {
	s      *vsched.Sched
	perm   []int
	gated  map[int]int // thread id -> container index
	passed []int
}

func (g *gate) rank(ctr int) int {
	for i, p := range g.perm {
		if p == ctr {
			return i
		}
	}
	return len(g.perm) + ctr
}

func (g *gate) wait(ctr int) {
	tid := g.s.ThreadID()
	g.gated[tid] = ctr
	g.s.BlockUntil(fmt.Sprintf("gate:%d", ctr), func() bool {
		if !g.s.QuiescentExcept(func(id int) bool { _, ok := g.gated[id]; return ok }) {
			return false
		}
		best := -1
		for _, c := range g.gated {
			if best < 0 || g.rank(c) < g.rank(best) {
				best = c
			}
		}
		return best == ctr
	})
	delete(g.gated, tid)
	g.passed = append(g.passed, ctr)
}

// selectObs is what one SelectLogs execution showed.
type selectObs struct {
	Out       []string `json:"out"` // "<body>@<ts>" in output order
	Err       string   `json:"err,omitempty"`
	IterErr   string   `json:"iter_err,omitempty"`
	OpenOrder []int    `json:"open_order"`
	Completed []int    `json:"completed,omitempty"`
	Opened    []int    `json:"opened"`
	Closed    []int    `json:"closed"`
	Deadlock  string   `json:"deadlock,omitempty"`
	Panics    []string `json:"panics,omitempty"`
	Labels    []string `json:"labels,omitempty"`
	// PreOut: what the earlier selection delivered, when it is kept alive next to the main one
	PreOut []string `json:"pre_out,omitempty"`
}

func (o selectObs) key() string {
	return strings.Join(o.Out, "|") + "#" + o.Err + "#" + o.IterErr + "#" + o.Deadlock + "#" + strings.Join(o.Panics, ";") + "#" + strings.Join(o.Labels, "|")
}

func attrsString(a otelstorage.Attrs) string {
	if a.IsZero() {
		return ""
	}
	var kv []string
	for k, v := range a.AsMap().AsRaw() {
		kv = append(kv, fmt.Sprintf("%s=%v", k, v))
	}
	sort.Strings(kv)
	return strings.Join(kv, ",")
}

// selectPre, when non-nil, makes runSelect answer an earlier selection on the same Querier first (matching only the
// containers whose index is in Only, read for Drain records, then closed): state left behind by a previous query.
type selectPreT struct {
	Only  string // regex over container names
	Drain int
	// Alive: the earlier selection is not closed before the main one is made; the two are then read in turns (one record
	// each) and the earlier one is closed last (two selections of one Querier alive at once, as the two sides of a binary
	// operation are)
	Alive bool
}

var selectPre *selectPreT

// runSelect executes Querier.SelectLogs + a full drain + Close over a fresh fake client
// under a fresh cooperative scheduler.
func runSelect(c *vsched.Ctx, ctrs []fakedocker.Container, perm []int, params logqlengine.SelectLogsParams, start, end otelstorage.Timestamp, withLabels bool, plan fakedocker.ReadPlan) (selectObs, *fakedocker.Fake) {
	var obs selectObs
	fake := fakedocker.New(ctrs)
	fake.Plan = plan
	var g *gate
	s := vsched.RunMain(c, func() {
		s := vsched.Active()
		if perm != nil {
			g = &gate{s: s, perm: perm, gated: map[int]int{}}
		}
		fake.Yield = func(label string) {
			if g != nil && strings.HasPrefix(label, "logs-return:") {
				id := strings.TrimPrefix(label, "logs-return:")
				for i, ct := range ctrs {
					if ct.ID == id {
						g.wait(i)
						return
					}
				}
			}
			s.Yield(label)
		}
		q, err := dockerlog.NewQuerier(fake)
		if err != nil {
			obs.Err = "new querier: " + err.Error()
			return
		}
		var alive iterators.Iterator[logstorage.Record]
		if pre := selectPre; pre != nil {
			gg := g
			g = nil // the earlier query runs ungated
			re, _ := regexp.Compile("^(?:" + pre.Only + ")$")
			pit, perr := q.SelectLogs(context.Background(), start, end, logqlengine.SelectLogsParams{Labels: []logql.LabelMatcher{{Label: "container", Op: logql.OpRe, Value: pre.Only, Re: re}}})
			if perr == nil {
				var prec logstorage.Record
				for k := 0; k < pre.Drain && pit.Next(&prec); k++ {
					if pre.Alive {
						obs.PreOut = append(obs.PreOut, fmt.Sprintf("%s@%d", prec.Body, int64(prec.Timestamp)))
					}
				}
				if pre.Alive {
					alive = pit
				} else {
					_ = pit.Close()
				}
			}
			fake.Calls, fake.OpenOrder = nil, nil
			fake.Opened, fake.Closed, fake.ReadBytes = make([]int, len(ctrs)), make([]int, len(ctrs)), make([]int, len(ctrs))
			g = gg
		}
		iter, err := q.SelectLogs(context.Background(), start, end, params)
		if err != nil {
			obs.Err = err.Error()
			return
		}
		var rec logstorage.Record
		for iter.Next(&rec) {
			obs.Out = append(obs.Out, fmt.Sprintf("%s@%d", rec.Body, int64(rec.Timestamp)))
			if withLabels {
				obs.Labels = append(obs.Labels, attrsString(rec.ResourceAttrs))
			}
			if len(obs.Out) > 10000 {
				obs.IterErr = "verif: runaway iterator"
				break
			}
			if alive != nil {
				var prec logstorage.Record
				if alive.Next(&prec) {
					obs.PreOut = append(obs.PreOut, fmt.Sprintf("%s@%d", prec.Body, int64(prec.Timestamp)))
				}
			}
		}
		if err := iter.Err(); err != nil {
			obs.IterErr = err.Error()
		}
		_ = iter.Close()
		if alive != nil {
			var prec logstorage.Record
			for alive.Next(&prec) && len(obs.PreOut) < 10000 {
				obs.PreOut = append(obs.PreOut, fmt.Sprintf("%s@%d", prec.Body, int64(prec.Timestamp)))
			}
			if err := alive.Err(); err != nil {
				obs.IterErr += "earlier selection: " + err.Error()
			}
			_ = alive.Close()
		}
	})
	obs.Deadlock = s.Deadlock
	obs.Panics = s.Panics
	obs.OpenOrder = fake.OpenOrder
	obs.Opened = fake.Opened
	obs.Closed = fake.Closed
	if g != nil {
		obs.Completed = g.passed
	}
	return obs, fake
}

func newEngine(q logqlengine.Querier) *logqlengine.Engine {
	return logqlengine.NewEngine(q, logqlengine.Options{TracerProvider: noop.NewTracerProvider()})
}

func perms(n int) [][]int {
	var out [][]int
	a := make([]int, n)
	for i := range a {
		a[i] = i
	}
	var rec func(k int)
	rec = func(k int) {
		if k == n {
			out = append(out, append([]int(nil), a...))
			return
		}
		for i := k; i < n; i++ {
			a[k], a[i] = a[i], a[k]
			rec(k + 1)
			a[k], a[i] = a[i], a[k]
		}
	}
	rec(0)
	return out
}
