//go:build verif

package main

import (
	"context"
	"errors"
	"fmt"
	"github.com/docker/docker/errdefs"
	"sort"
	"strings"
	"time"

	"github.com/tdakkota/docker-logql/internal/dockerlog"
	"github.com/tdakkota/docker-logql/internal/logql/logqlengine"
	"github.com/tdakkota/docker-logql/internal/lokiapi"
	"github.com/tdakkota/docker-logql/internal/otelstorage"
	"github.com/tdakkota/docker-logql/internal/zzverif/fakedocker"
	"github.com/tdakkota/docker-logql/internal/zzverif/vkit"
	"github.com/tdakkota/docker-logql/internal/zzverif/vsched"
)

type c14Fault struct {
	Kind string `json:"kind"` // none, list, open, open-notfound, open2, readerr, truncate, systemerr, badts, closeerr
	Ctr  int    `json:"ctr,omitempty"`
	Ctr2 int    `json:"ctr2,omitempty"`
	At   int    `json:"at,omitempty"` // byte offset or frame index
}

type c14Input struct {
	Shape string   `json:"shape"`
	Fault c14Fault `json:"fault"`
	Mode  string   `json:"mode"` // bound, all, perm
	Bound int      `json:"bound,omitempty"`
	Perm  []int    `json:"perm,omitempty"`
	// Again: the Querier and Engine have answered the same query once before (counters are reset in between): what a
	// finished evaluation leaves behind must not keep the next one from closing its readers or reporting its faults
	Again bool `json:"again,omitempty"`
}

type c14Shape struct {
	name   string
	n      int // containers
	query  string
	params logqlengine.EvalParams
	// invalid: the query holds an invalid stage / unsupported construct: Eval must fail even without a fault
	invalid bool
	// big: the second record of container 0 is a line of 300000 bytes; faults are then placed at chosen offsets only
	big bool
}

var c14Shapes = []c14Shape{
	{name: "log-1", n: 1, query: `{}`, params: logqlengine.EvalParams{Start: 0, End: otelstorage.Timestamp(10 * sec), Step: time.Second, Limit: -1}},
	{name: "log-2", n: 2, query: `{}`, params: logqlengine.EvalParams{Start: 0, End: otelstorage.Timestamp(10 * sec), Step: time.Second, Limit: -1}},
	{name: "log-3", n: 3, query: `{} |= "m"`, params: logqlengine.EvalParams{Start: 0, End: otelstorage.Timestamp(10 * sec), Step: time.Second, Limit: -1}},
	{name: "log-3-limit", n: 3, query: `{}`, params: logqlengine.EvalParams{Start: 0, End: otelstorage.Timestamp(10 * sec), Step: time.Second, Limit: 4}},
	{name: "count-range-2", n: 2, query: `sum by (container) (count_over_time({}[2s]))`, params: logqlengine.EvalParams{Start: otelstorage.Timestamp(1 * sec), End: otelstorage.Timestamp(5 * sec), Step: 2 * time.Second, Limit: -1}},
	{name: "count-range-1", n: 1, query: `count_over_time({}[1s])`, params: logqlengine.EvalParams{Start: otelstorage.Timestamp(1 * sec), End: otelstorage.Timestamp(6 * sec), Step: time.Second, Limit: -1}},
	{name: "count-instant-3", n: 3, query: `count_over_time({}[5s])`, params: logqlengine.EvalParams{Start: otelstorage.Timestamp(4 * sec), End: otelstorage.Timestamp(4 * sec), Limit: -1}},
	{name: "binop-2x1", n: 2, query: `sum(count_over_time({container="n0"}[5s])) + sum(count_over_time({container="n1"}[5s]))`, params: logqlengine.EvalParams{Start: otelstorage.Timestamp(4 * sec), End: otelstorage.Timestamp(4 * sec), Limit: -1}},
	{name: "invalid-right-pattern", n: 2, invalid: true, query: `sum(count_over_time({}[3s])) + sum(count_over_time({} | pattern "<a><b>" [3s]))`, params: logqlengine.EvalParams{Start: otelstorage.Timestamp(4 * sec), End: otelstorage.Timestamp(4 * sec), Limit: -1}},
	{name: "invalid-right-template", n: 2, invalid: true, query: `sum(count_over_time({}[3s])) / sum(count_over_time({} | line_format "{{ .a | nosuchfunc }}" [3s]))`, params: logqlengine.EvalParams{Start: otelstorage.Timestamp(2 * sec), End: otelstorage.Timestamp(4 * sec), Step: time.Second, Limit: -1}},
	{name: "invalid-right-unsupported", n: 1, invalid: true, query: `sum(count_over_time({}[3s])) * sum(absent_over_time({}[3s]))`, params: logqlengine.EvalParams{Start: otelstorage.Timestamp(4 * sec), End: otelstorage.Timestamp(4 * sec), Limit: -1}},
	// invalid stages in pipelines of several stages, after a valid stage of the same kind, and in the shape of a no-op
	{name: "invalid-ip-empty", n: 2, invalid: true, query: `{} |= ip("")`, params: logqlengine.EvalParams{Start: 0, End: otelstorage.Timestamp(10 * sec), Step: time.Second, Limit: -1}},
	{name: "invalid-second-of-two", n: 2, invalid: true, query: `{} |= "m" | line_format "{{ .a | nosuchfunc }}"`, params: logqlengine.EvalParams{Start: 0, End: otelstorage.Timestamp(10 * sec), Step: time.Second, Limit: -1}},
	{name: "invalid-first-of-three", n: 1, invalid: true, query: `count_over_time({} | pattern "<a><b>" | json |= "m" [3s])`, params: logqlengine.EvalParams{Start: otelstorage.Timestamp(4 * sec), End: otelstorage.Timestamp(4 * sec), Limit: -1}},
	{name: "invalid-repeated-json", n: 2, invalid: true, query: `{} | json | json x="a..["`, params: logqlengine.EvalParams{Start: 0, End: otelstorage.Timestamp(10 * sec), Step: time.Second, Limit: -1}},
	{name: "invalid-log-jsonpath", n: 2, invalid: true, query: `{} | json x="a..["`, params: logqlengine.EvalParams{Start: 0, End: otelstorage.Timestamp(10 * sec), Step: time.Second, Limit: -1}},
	{name: "setop-or-2", n: 2, query: `sum by (container) (count_over_time({container="n0"}[5s])) or sum by (container) (count_over_time({container="n1"}[5s]))`, params: logqlengine.EvalParams{Start: otelstorage.Timestamp(4 * sec), End: otelstorage.Timestamp(4 * sec), Limit: -1}},
	{name: "setop-unless-2", n: 2, query: `sum(count_over_time({container="n0"}[5s])) unless sum(count_over_time({container="n1"} |= "nothing" [5s]))`, params: logqlengine.EvalParams{Start: otelstorage.Timestamp(2 * sec), End: otelstorage.Timestamp(4 * sec), Step: time.Second, Limit: -1}},
	{name: "setop-and-3", n: 3, query: `sum(count_over_time({container=~"n0|n2"}[5s])) and sum(count_over_time({container="n1"}[5s]))`, params: logqlengine.EvalParams{Start: otelstorage.Timestamp(4 * sec), End: otelstorage.Timestamp(4 * sec), Limit: -1}},
	{name: "log-big-2", n: 2, big: true, query: `{}`, params: logqlengine.EvalParams{Start: 0, End: otelstorage.Timestamp(10 * sec), Step: time.Second, Limit: -1}},
	{name: "count-big-1", n: 1, big: true, query: `bytes_over_time({}[5s])`, params: logqlengine.EvalParams{Start: otelstorage.Timestamp(4 * sec), End: otelstorage.Timestamp(4 * sec), Limit: -1}},
	{name: "lit-bool-2", n: 2, query: `sum by (container) (count_over_time({}[5s])) + bool 2`, params: logqlengine.EvalParams{Start: otelstorage.Timestamp(4 * sec), End: otelstorage.Timestamp(4 * sec), Limit: -1}},
	{name: "lit-left-pow-2", n: 2, query: `2 ^ bool sum(count_over_time({}[5s]))`, params: logqlengine.EvalParams{Start: otelstorage.Timestamp(2 * sec), End: otelstorage.Timestamp(4 * sec), Step: time.Second, Limit: -1}},
	{name: "binop-2x2", n: 2, query: `sum(count_over_time({}[3s])) / sum(count_over_time({} |= "m"[2s]))`, params: logqlengine.EvalParams{Start: otelstorage.Timestamp(2 * sec), End: otelstorage.Timestamp(4 * sec), Step: time.Second, Limit: -1}},
}

func c14ShapeByName(n string) c14Shape {
	for _, s := range c14Shapes {
		if s.name == n {
			return s
		}
	}
	panic("unknown shape " + n)
}

// c14Containers builds the inventory; faults that live in the byte stream are applied here.
func c14Containers(sh c14Shape, f c14Fault) (ctrs []fakedocker.Container, frameStarts [][]int) {
	for i := 0; i < sh.n; i++ {
		var frames [][]byte
		for j := 0; j < 3; j++ {
			payload := fakedocker.TS(int64(1+j)*sec+int64(i)) + " " + fmt.Sprintf("m%d-%d", i, j)
			if sh.big && i == 0 && j == 1 {
				payload += strings.Repeat("x", 300000)
			}
			stream := byte(1 + (i+j)%2)
			if f.Ctr == i && f.At == j {
				switch f.Kind {
				case "systemerr":
					stream, payload = fakedocker.Systemerr, "daemon failure"
				case "badts":
					payload = "not-a-timestamp " + payload
				}
			}
			frames = append(frames, fakedocker.Frame(stream, []byte(payload)))
		}
		var log []byte
		var starts []int
		for _, fr := range frames {
			starts = append(starts, len(log))
			log = append(log, fr...)
		}
		if f.Kind == "truncate" && f.Ctr == i {
			log = log[:f.At]
		}
		c := fakedocker.Container{ID: fmt.Sprintf("id%d", i), Name: fmt.Sprintf("/n%d", i), Image: "img", State: "running", Log: log}
		if (f.Kind == "open" && f.Ctr == i) || (f.Kind == "open2" && (f.Ctr == i || f.Ctr2 == i)) {
			c.OpenErr = fakedocker.ErrInjected
		}
		if f.Kind == "open-notfound" && f.Ctr == i {
			c.OpenErr = errdefs.NotFound(errors.New("No such container: " + c.ID)) // what dockerd answers for a container removed meanwhile
		}
		if f.Kind == "closeerr" && f.Ctr == i {
			c.CloseErr = fakedocker.ErrInjected
		}
		ctrs = append(ctrs, c)
		frameStarts = append(frameStarts, starts)
	}
	return ctrs, frameStarts
}

type c14Obs struct {
	Result   string   `json:"result"`
	Err      string   `json:"err,omitempty"`
	Opened   []int    `json:"opened"`
	Closed   []int    `json:"closed"`
	Read     []int    `json:"read_bytes"`
	Deadlock string   `json:"deadlock,omitempty"`
	Panics   []string `json:"panics,omitempty"`
}

func canonResult(data lokiapi.QueryResponseData) string {
	var parts []string
	switch data.Type {
	case lokiapi.StreamsResultQueryResponseData:
		for _, st := range data.StreamsResult.Result {
			var kv []string
			for k, v := range st.Stream.Value {
				kv = append(kv, k+"="+v)
			}
			sort.Strings(kv)
			var es []string
			for _, e := range st.Values {
				es = append(es, fmt.Sprintf("%d:%s", e.T, e.V))
			}
			parts = append(parts, "{"+strings.Join(kv, ",")+"}"+strings.Join(es, "|"))
		}
	case lokiapi.VectorResultQueryResponseData:
		for _, s := range data.VectorResult.Result {
			var kv []string
			for k, v := range s.Metric.Value {
				kv = append(kv, k+"="+v)
			}
			sort.Strings(kv)
			parts = append(parts, fmt.Sprintf("{%s}%v@%v", strings.Join(kv, ","), s.Value.V, s.Value.T))
		}
	case lokiapi.MatrixResultQueryResponseData:
		for _, s := range data.MatrixResult.Result {
			var kv []string
			for k, v := range s.Metric.Value {
				kv = append(kv, k+"="+v)
			}
			sort.Strings(kv)
			var ps []string
			for _, p := range s.Values {
				ps = append(ps, fmt.Sprintf("%v@%v", p.V, p.T))
			}
			parts = append(parts, "{"+strings.Join(kv, ",")+"}"+strings.Join(ps, "|"))
		}
	default:
		parts = append(parts, string(data.Type))
	}
	sort.Strings(parts)
	return string(data.Type) + "[" + strings.Join(parts, " ; ") + "]"
}

// runEval executes Engine.Eval over a fresh fake client under a fresh scheduler.
func runEval(c *vsched.Ctx, ctrs []fakedocker.Container, listErr error, perm []int, plan fakedocker.ReadPlan, query string, params logqlengine.EvalParams, again ...bool) c14Obs {
	var obs c14Obs
	fake := fakedocker.New(ctrs)
	fake.ListErr = listErr
	fake.Plan = plan
	s := vsched.RunMain(c, func() {
		s := vsched.Active()
		var g *gate
		if perm != nil {
			g = &gate{s: s, perm: perm, gated: map[int]int{}}
		}
		fake.Yield = func(label string) {
			if g != nil && strings.HasPrefix(label, "logs-return:") {
				id := strings.TrimPrefix(label, "logs-return:")
				for i, ct := range ctrs {
					if ct.ID == id {
						g.wait(i)
						return
					}
				}
			}
			s.Yield(label)
		}
		q, _ := dockerlog.NewQuerier(fake)
		eng := newEngine(q)
		if len(again) > 0 && again[0] {
			gg := g
			g = nil // the earlier evaluation runs ungated
			_, _ = eng.Eval(context.Background(), query, params)
			n := len(ctrs)
			fake.Calls, fake.OpenOrder = nil, nil
			fake.Opened, fake.Closed, fake.ReadBytes = make([]int, n), make([]int, n), make([]int, n)
			g = gg
		}
		data, err := eng.Eval(context.Background(), query, params)
		if err != nil {
			obs.Err = err.Error()
			return
		}
		obs.Result = canonResult(data)
	})
	obs.Deadlock, obs.Panics = s.Deadlock, s.Panics
	obs.Opened, obs.Closed, obs.Read = fake.Opened, fake.Closed, fake.ReadBytes
	return obs
}

func c14Exec(c *vsched.Ctx, in c14Input) c14Obs {
	sh := c14ShapeByName(in.Shape)
	ctrs, _ := c14Containers(sh, in.Fault)
	var listErr error
	if in.Fault.Kind == "list" {
		listErr = fakedocker.ErrInjected
	}
	var plan fakedocker.ReadPlan
	if in.Fault.Kind == "readerr" {
		f := in.Fault
		plan = func(ctr, pos, max int) (int, error) {
			if ctr != f.Ctr {
				return max, nil
			}
			if pos >= f.At {
				return 0, fakedocker.ErrInjected
			}
			if pos+max > f.At {
				return f.At - pos, nil
			}
			return max, nil
		}
	}
	return runEval(c, ctrs, listErr, in.Perm, plan, sh.query, sh.params, in.Again)
}

// c14Baseline: the fault-free run of a shape under the default schedule (how far each reader is consumed).
var c14Base = map[string]c14Obs{}

func c14Baseline(shape string) c14Obs {
	if b, ok := c14Base[shape]; ok {
		return b
	}
	b := c14Exec(vsched.NewCtx(nil), c14Input{Shape: shape, Fault: c14Fault{Kind: "none"}})
	c14Base[shape] = b
	return b
}

// c14Oracle checks one execution.
func c14Oracle(in c14Input, o c14Obs) string {
	sh := c14ShapeByName(in.Shape)
	base := c14Baseline(in.Shape)
	if o.Deadlock != "" {
		return "deadlock: " + o.Deadlock
	}
	if len(o.Panics) > 0 {
		return "panic: " + strings.Join(o.Panics, "; ")
	}
	for i := range o.Opened {
		if o.Closed[i] < o.Opened[i] {
			return fmt.Sprintf("container %d: %d log reader(s) opened, %d closed when Eval returned (err=%q)", i, o.Opened[i], o.Closed[i], o.Err)
		}
	}
	// a stream that simply ends at a frame boundary or inside a header is a shorter, clean log (C03)
	if sh.invalid {
		if o.Err == "" {
			return "the query holds an invalid stage but Eval returned a result: " + o.Result
		}
		return ""
	}
	if in.Fault.Kind == "closeerr" {
		// a reader whose Close fails: every reader is still closed; whether Eval reports the Close error is not specified
		if o.Err == "" && o.Result != base.Result {
			return "a failing Close changed the result: " + o.Result + " vs " + base.Result
		}
		return ""
	}
	if o.Err == "" && o.Result != base.Result && in.Fault.Kind != "truncate" {
		return "evaluation succeeded with a result that differs from the fault-free one (silently truncated): " + o.Result + " vs " + base.Result
	}
	mustFail := false
	f := in.Fault
	_, starts := c14Containers(sh, c14Fault{Kind: "none"})
	switch f.Kind {
	case "none":
		if o.Err != "" {
			return "fault-free evaluation failed: " + o.Err
		}
	case "list", "open", "open2", "open-notfound":
		mustFail = true
	case "readerr":
		mustFail = f.At < base.Read[f.Ctr]
	case "truncate":
		// cut inside a body of a frame the fault-free run reads
		for k, st := range starts[f.Ctr] {
			end := len(c14FullLog(sh, f.Ctr))
			if k+1 < len(starts[f.Ctr]) {
				end = starts[f.Ctr][k+1]
			}
			if f.At > st+8 && f.At < end && st < base.Read[f.Ctr] {
				mustFail = true
			}
			if f.At == st+8 && st < base.Read[f.Ctr] {
				mustFail = true
			}
		}
	case "systemerr", "badts":
		mustFail = starts[f.Ctr][f.At] < base.Read[f.Ctr]
	}
	if mustFail && o.Err == "" {
		return fmt.Sprintf("fault %+v lies inside the part of the stream the fault-free run consumes, but Eval returned no error", f)
	}
	return ""
}

func c14FullLog(sh c14Shape, ctr int) []byte {
	ctrs, _ := c14Containers(sh, c14Fault{Kind: "none"})
	return ctrs[ctr].Log
}

func c14Scenario(r *vkit.Run, in c14Input) {
	bound := in.Bound
	switch in.Mode {
	case "all":
		bound = -1
	case "perm":
		bound = 0
	}
	outcomes := map[string]bool{}
	st := vsched.Explore(bound, 0, func(c *vsched.Ctx) {
		r.BeginChoices("C14", in, c.Prefix())
		obs := c14Exec(c, in)
		r.Eval()
		outcomes[obs.Result+"#"+fmt.Sprint(obs.Err != "")] = true
		if why := c14Oracle(in, obs); why != "" {
			r.Fail("C14", in, c.TrimmedChoices(), obs, map[string]any{"fault_free": c14Baseline(in.Shape)}, fmt.Sprintf("%s (%s), fault %+v: %s", in.Shape, c14ShapeByName(in.Shape).query, in.Fault, why), c14Classify(in, obs))
		}
		if c.Diverged != "" {
			r.HarnessError("replay divergence: %s", c.Diverged)
		}
	}, func(*vsched.Ctx) bool { return !r.Stop() })
	r.Step(int(st.Points) + 1)
	r.Count("schedules", st.Executions)
	if st.Capped {
		r.Cap("schedule exploration stopped early")
	}
	for k := range outcomes {
		r.State(vkit.J(in) + k)
	}
	if in.Fault.Kind != "none" {
		r.NonTrivial()
	}
	if r.WantSample() && in.Fault.Kind == "readerr" && in.Fault.At > 20 {
		r.Sample(map[string]any{"input": in, "query": c14ShapeByName(in.Shape).query, "schedules": st.Executions})
	}
}

// c14Classify: the metric path never closed its readers on the pinned tree (repaired).
func c14Classify(in c14Input, o c14Obs) string { return "" }

func c14Run(r *vkit.Run) {
	idx := 0
	emit := func(in c14Input) {
		idx++
		if !r.Mine(idx) || r.Stop() {
			return
		}
		c14Scenario(r, in)
	}
	openBound := 2
	openMode := "bound"
	if r.Thorough() {
		openMode = "all"
	}
	for _, sh := range c14Shapes {
		// fault-free, every schedule within the bound
		emit(c14Input{Shape: sh.name, Fault: c14Fault{Kind: "none"}, Mode: "bound", Bound: 2})
		// open-time faults act while the goroutines run: all schedules (thorough) / preemption bound 2 (quick)
		emit(c14Input{Shape: sh.name, Fault: c14Fault{Kind: "none"}, Mode: "bound", Bound: 1, Again: true})
		emit(c14Input{Shape: sh.name, Fault: c14Fault{Kind: "list"}, Mode: "bound", Bound: 1})
		for i := 0; i < sh.n; i++ {
			emit(c14Input{Shape: sh.name, Fault: c14Fault{Kind: "open", Ctr: i}, Mode: openMode, Bound: openBound})
			emit(c14Input{Shape: sh.name, Fault: c14Fault{Kind: "open-notfound", Ctr: i}, Mode: "bound", Bound: 1})
			for j := i + 1; j < sh.n; j++ {
				emit(c14Input{Shape: sh.name, Fault: c14Fault{Kind: "open2", Ctr: i, Ctr2: j}, Mode: openMode, Bound: openBound})
			}
		}
		for i := 0; i < sh.n; i++ {
			for _, pm := range perms(sh.n) {
				emit(c14Input{Shape: sh.name, Fault: c14Fault{Kind: "closeerr", Ctr: i}, Mode: "perm", Perm: nilIf(sh.n == 1, pm)})
			}
		}
		if sh.invalid {
			continue
		}
		// read-time faults act after Wait returned: every completion order, plus preemption bound 1 on the default order
		ps := perms(sh.n)
		for i := 0; i < sh.n; i++ {
			full := c14FullLog(sh, i)
			positions := make([]int, 0, len(full)+1)
			for p := 0; p <= len(full); p++ {
				positions = append(positions, p)
			}
			if sh.big && i == 0 {
				// the first frame and the header of the long one byte by byte, then chosen offsets inside the long body and
				// around its end
				_, starts := c14Containers(sh, c14Fault{Kind: "none"})
				b := starts[0][1] + 8 // start of the long body
				positions = positions[:b+40]
				for _, off := range []int{4096, 65536, 262143, 262144, 262145, 262144 + 8, 262144 + 40, 299000} {
					positions = append(positions, b+off)
				}
				for p := starts[0][2] - 3; p <= len(full); p++ {
					positions = append(positions, p)
				}
			}
			for _, p := range positions {
				for _, pm := range ps {
					if sh.n == 1 {
						pm = nil
					}
					emit(c14Input{Shape: sh.name, Fault: c14Fault{Kind: "readerr", Ctr: i, At: p}, Mode: "perm", Perm: pm})
					if sh.n == 1 {
						break
					}
				}
				if p%9 == 0 {
					emit(c14Input{Shape: sh.name, Fault: c14Fault{Kind: "readerr", Ctr: i, At: p}, Mode: "bound", Bound: 1})
				}
				emit(c14Input{Shape: sh.name, Fault: c14Fault{Kind: "truncate", Ctr: i, At: p}, Mode: "perm", Perm: nilIf(sh.n == 1, ps[len(ps)-1])})
			}
			for k := 0; k < 3; k++ {
				for _, kind := range []string{"systemerr", "badts"} {
					for _, pm := range ps {
						emit(c14Input{Shape: sh.name, Fault: c14Fault{Kind: kind, Ctr: i, At: k}, Mode: "perm", Perm: nilIf(sh.n == 1, pm)})
					}
					emit(c14Input{Shape: sh.name, Fault: c14Fault{Kind: kind, Ctr: i, At: k}, Mode: "perm", Perm: nilIf(sh.n == 1, ps[0]), Again: true})
				}
			}
			// the same faults met by a Querier and Engine that have evaluated the query before
			for pi := 0; pi < len(positions); pi += 5 {
				p := positions[pi]
				emit(c14Input{Shape: sh.name, Fault: c14Fault{Kind: "readerr", Ctr: i, At: p}, Mode: "perm", Perm: nilIf(sh.n == 1, ps[0]), Again: true})
				emit(c14Input{Shape: sh.name, Fault: c14Fault{Kind: "truncate", Ctr: i, At: p}, Mode: "perm", Perm: nilIf(sh.n == 1, ps[len(ps)-1]), Again: true})
			}
			emit(c14Input{Shape: sh.name, Fault: c14Fault{Kind: "open", Ctr: i}, Mode: "bound", Bound: 1, Again: true})
		}
	}
	r.Note("bounds", fmt.Sprintf("%d query shapes (log over 1/2/3 containers, with limit, range and instant count_over_time, arithmetic and set operations between two storage selections); single faults: a reader whose Close fails, ContainerList error, ContainerLogs error of each container (a plain error and dockerd's not-found error) and of each pair (schedules: %s), read error at every byte offset and truncation at every byte offset of every stream, daemon-error frame and unparsable timestamp at every frame (all N! completion orders; read errors also preemption bound 1 on a 1/9 lattice)", len(c14Shapes), map[string]string{"bound": "preemption bound 2", "all": "every interleaving"}[openMode]))
}

func nilIf(cond bool, p []int) []int {
	if cond {
		return nil
	}
	return p
}

func c14Replay(r *vkit.Run, v vkit.Violation) *vkit.Violation {
	var in c14Input
	if err := vkit.DecodeInput(v, &in); err != nil {
		r.HarnessError("bad input: %v", err)
	}
	return vkit.ReplayOne(r, func() {
		c := vsched.NewCtx(v.Choices)
		obs := c14Exec(c, in)
		if c.Diverged != "" {
			r.HarnessError("replay divergence: %s", c.Diverged)
		}
		if why := c14Oracle(in, obs); why != "" {
			r.Fail("C14", in, v.Choices, obs, map[string]any{"fault_free": c14Baseline(in.Shape)}, why, "")
		}
	})
}
