//go:build verif

package main

import (
	"fmt"
	"sort"
	"strconv"
	"strings"

	"github.com/tdakkota/docker-logql/internal/logql/logqlengine"
	"github.com/tdakkota/docker-logql/internal/zzverif/fakedocker"
	"github.com/tdakkota/docker-logql/internal/zzverif/vkit"
	"github.com/tdakkota/docker-logql/internal/zzverif/vsched"
)

// c04Input: per-container timestamp sequences (seconds) + how schedules are explored.
type c04Input struct {
	Logs  [][]int `json:"logs"`
	Mode  string  `json:"mode"`  // "bound" (preemption-bounded), "all" (every interleaving), "perm" (gated completion order)
	Bound int     `json:"bound"` // for mode bound
	Perm  []int   `json:"perm,omitempty"`
	// Empty: every second record has an empty message; timestamps are then made unique (container i, record j:
	// +1000i+j ns) so that a record is still identified by its timestamp.
	Empty bool `json:"empty,omitempty"`
	// TwoNames: every container is known to the daemon under two names (it is still one container).
	TwoNames bool `json:"two_names,omitempty"`
	// Pre: the same Querier first answers a selection of the containers n1|n2, abandoned after Pre-1 records
	// (0 = no earlier query).
	Pre int `json:"pre,omitempty"`
	// PreAlive: that earlier selection is not abandoned but kept open and read in turns with the main one (two
	// selections of one Querier alive at once); it then selects every container, and must deliver each record once as well
	PreAlive bool `json:"pre_alive,omitempty"`
	// SameMsg: every record of every container carries the same message (records that coincide in timestamp and
	// text are still distinct records)
	SameMsg bool `json:"same_msg,omitempty"`
	// IDLabel: container 0 carries the Docker labels container-id = id1 and container.name = n1 (a Docker label may be named
	// like a built-in one; which log is read is decided by the container, not by its labels)
	IDLabel bool `json:"id_label,omitempty"`
	// Long: every message is 300 bytes longer (frames beyond any short-line fast path, one after the other)
	Long bool `json:"long,omitempty"`
	// Early: timestamps are tenths of a second instead of seconds: every record lies in the first second after the epoch
	Early bool `json:"early,omitempty"`
}

func c04Rec(in c04Input, i, j, ts int) (msg string, ns int64) {
	if in.SameMsg {
		return "same#0", int64(ts) * sec
	}
	if in.Long {
		return strings.Repeat("x", 300) + fmt.Sprintf("c%d#%d", i, j), int64(ts) * sec
	}
	if in.Early {
		return fmt.Sprintf("c%d#%d", i, j), int64(ts) * sec / 10
	}
	if !in.Empty {
		return fmt.Sprintf("c%d#%d", i, j), int64(ts) * sec
	}
	ns = int64(ts)*sec + int64(1000*i+j)
	if j%2 == 0 {
		return "", ns
	}
	return fmt.Sprintf("c%d#%d", i, j), ns
}

func c04Containers(in c04Input) []fakedocker.Container {
	var ctrs []fakedocker.Container
	for i, seq := range in.Logs {
		var recs []fakedocker.Rec
		for j, ts := range seq {
			msg, ns := c04Rec(in, i, j, ts)
			// (frame types 1, 2 and 0: the type of a frame says which stream of the container it came from, nothing else)
			recs = append(recs, fakedocker.Rec{Stream: byte((1 + i + j) % 3), TS: fakedocker.TS(ns), Msg: msg})
		}
		ctr := fakedocker.Container{
			ID:    fmt.Sprintf("id%d", i),
			Name:  fmt.Sprintf("/n%d", i),
			Image: "img",
			State: "running",
			Log:   fakedocker.Encode(recs),
		}
		if in.IDLabel && i == 0 && len(in.Logs) > 1 {
			ctr.Labels = map[string]string{"container-id": "id1", "container.name": "n1"}
		}
		if in.TwoNames {
			ctr.Names = []string{fmt.Sprintf("/n%d", i), fmt.Sprintf("/other/alias%d", i)}
		}
		ctrs = append(ctrs, ctr)
	}
	return ctrs
}

// c04Oracle checks one execution; returns "" if fine.
func c04Oracle(in c04Input, o selectObs) string {
	if o.Deadlock != "" {
		return "deadlock: " + o.Deadlock
	}
	if len(o.Panics) > 0 {
		return "panic: " + strings.Join(o.Panics, "; ")
	}
	if o.Err != "" || o.IterErr != "" {
		return "unexpected error: " + o.Err + o.IterErr
	}
	// conservation: output multiset == disjoint union of inputs
	want := map[string]int{}
	total := 0
	allOrdered := true
	for i, seq := range in.Logs {
		for j, ts := range seq {
			msg, ns := c04Rec(in, i, j, ts)
			want[fmt.Sprintf("%s@%d", msg, ns)]++
			total++
			if j > 0 && seq[j-1] > ts {
				allOrdered = false
			}
		}
	}
	got := map[string]int{}
	for _, e := range o.Out {
		got[e]++
	}
	if len(o.Out) != total {
		return fmt.Sprintf("merged stream has %d records, containers hold %d", len(o.Out), total)
	}
	for k, n := range want {
		if got[k] != n {
			return fmt.Sprintf("record %s appears %d times in the merged stream, expected %d", k, got[k], n)
		}
	}
	// per-container order preserved; global order if every input is ordered
	last := map[string]int{}
	prevTS := int64(-1)
	for _, e := range o.Out {
		at := strings.LastIndexByte(e, '@')
		hash := strings.IndexByte(e, '#')
		if hash < 0 { // empty message: identified by its unique timestamp only
			ts, _ := strconv.ParseInt(e[at+1:], 10, 64)
			if allOrdered && ts < prevTS {
				return fmt.Sprintf("timestamps decrease in merged stream at %s", e)
			}
			prevTS = ts
			continue
		}
		c := e[:hash]
		j, _ := strconv.Atoi(e[hash+1 : at])
		ts, _ := strconv.ParseInt(e[at+1:], 10, 64)
		if l, ok := last[c]; ok && j < l {
			return fmt.Sprintf("container %s: record #%d delivered after #%d", c, j, l)
		}
		last[c] = j
		if allOrdered && ts < prevTS {
			return fmt.Sprintf("timestamps decrease in merged stream at %s", e)
		}
		prevTS = ts
	}
	if in.PreAlive && in.Pre > 0 {
		wantPre := map[string]int{}
		n := 0
		for i, seq := range in.Logs {
			for j, ts := range seq {
				msg, ns := c04Rec(in, i, j, ts)
				wantPre[fmt.Sprintf("%s@%d", msg, ns)]++
				n++
			}
		}
		gotPre := map[string]int{}
		for _, e := range o.PreOut {
			gotPre[e]++
		}
		if len(o.PreOut) != n {
			return fmt.Sprintf("the selection of all containers made earlier on the same Querier and read in turns with this one delivered %d records, its containers hold %d", len(o.PreOut), n)
		}
		for k, c := range wantPre {
			if gotPre[k] != c {
				return fmt.Sprintf("record %s appears %d times in the earlier selection (all containers) read in turns with this one, expected %d", k, gotPre[k], c)
			}
		}
	}
	return "" // (opening and closing of readers is C14's subject)
}

func c04Exec(c *vsched.Ctx, in c04Input) selectObs {
	if in.Pre > 0 {
		selectPre = &selectPreT{Only: "n1|n2", Drain: in.Pre - 1, Alive: in.PreAlive}
		if in.PreAlive {
			selectPre.Only = ".*" // as many containers as the main selection: whatever is sized by the earlier one fits the later one
		}
		defer func() { selectPre = nil }()
	}
	obs, _ := runSelect(c, c04Containers(in), in.Perm, logqlengine.SelectLogsParams{}, 0, 0, false, nil)
	return obs
}

// c04Scenario explores one input; returns number of executions.
func c04Scenario(r *vkit.Run, in c04Input) {
	var ref *selectObs
	outcomes := map[string]bool{}
	openOrders := map[string]bool{}
	bound := in.Bound
	if in.Mode != "bound" {
		bound = -1
	}
	if in.Mode == "perm" {
		bound = 0
	}
	body := func(c *vsched.Ctx) {
		r.BeginChoices("C04", in, c.Prefix())
		obs := c04Exec(c, in)
		r.Eval()
		if why := c04Oracle(in, obs); why != "" {
			r.Fail("C04/oracle", in, c.TrimmedChoices(), obs, nil, why, "")
		}
		if ref == nil {
			o := obs
			ref = &o
		} else if strings.Join(obs.Out, "|") != strings.Join(ref.Out, "|") {
			r.Fail("C04/schedule-independence", in, c.TrimmedChoices(), obs.Out, ref.Out,
				"merged output differs from the output of the default schedule of the same inventory", "")
		}
		outcomes[strings.Join(obs.Out, "|")] = true
		openOrders[fmt.Sprint(obs.OpenOrder)] = true
		if (in.Mode == "perm" || in.Mode == "perm1") && fmt.Sprint(obs.Completed) != fmt.Sprint(in.Perm) {
			// not a property violation: the gate failed to produce the order -> harness problem
			r.Count("perm_order_not_realised", 1)
		}
		if c.Diverged != "" {
			r.HarnessError("replay divergence: %s", c.Diverged)
		}
	}
	var st vsched.Stats
	if in.Mode == "perm1" {
		// the one execution that realises the completion order Perm (with many containers the scheduling choices that
		// are free of cost, i.e. which thread runs after a blocked one, are too many to enumerate)
		c := vsched.NewCtx(nil)
		body(c)
		st = vsched.Stats{Executions: 1, Points: int64(len(c.TrimmedChoices()))}
	} else {
		st = vsched.Explore(bound, 0, body, func(c *vsched.Ctx) bool { return !r.Stop() })
	}
	r.Step(int(st.Points) + int(st.Executions)) // choice points + one input->outcome transition per execution
	r.Count("schedules", st.Executions)
	r.Count("schedules_with_preemption_or_switch", st.Deviating)
	r.Count("open_orders_seen_sum", int64(len(openOrders)))
	if int64(len(outcomes)) > r.Counters["max_distinct_outputs_per_inventory"] {
		r.Counters["max_distinct_outputs_per_inventory"] = int64(len(outcomes))
	}
	if int64(len(openOrders)) > r.Counters["max_open_orders_per_inventory"] {
		r.Counters["max_open_orders_per_inventory"] = int64(len(openOrders))
	}
	if st.Capped {
		r.Cap("exploration of an inventory stopped early")
	}
	for k := range outcomes {
		r.State(vkit.J(in.Logs) + "=>" + k)
	}
	if st.Executions > 1 && len(in.Logs) >= 2 {
		r.NonTrivial()
	}
	if r.WantSample() {
		r.Sample(map[string]any{"input": in, "schedules": st.Executions, "distinct_outputs": len(outcomes), "open_orders": len(openOrders), "output": ref.Out})
	}
}

// seqs returns all timestamp sequences of length <= maxLen over {1..3}; ordered=true keeps only non-decreasing ones.
func c04Seqs(maxLen int, ordered bool) [][]int {
	out := [][]int{{}}
	var rec func(cur []int)
	rec = func(cur []int) {
		if len(cur) == maxLen {
			return
		}
		for v := 1; v <= 3; v++ {
			if ordered && len(cur) > 0 && cur[len(cur)-1] > v {
				continue
			}
			n := append(append([]int(nil), cur...), v)
			out = append(out, n)
			rec(n)
		}
	}
	rec(nil)
	sort.SliceStable(out, func(i, j int) bool { return len(out[i]) < len(out[j]) })
	return out
}

func c04Run(r *vkit.Run) {
	maxLen, bound := 2, 2
	if r.Thorough() {
		maxLen, bound = 3, 3
	}
	idx := 0
	emit := func(in c04Input) {
		idx++
		if !r.Mine(idx) || r.Stop() {
			return
		}
		c04Scenario(r, in)
	}
	// (a) every inventory of N in {2,3} containers, preemption-bounded schedules.
	ordered := c04Seqs(maxLen, true)
	unordered := c04Seqs(2, false)
	for _, n := range []int{2, 3} {
		for _, pool := range [][][]int{ordered, unordered} {
			cnt := make([]int, n)
			for {
				logs := make([][]int, n)
				for i := range logs {
					logs[i] = pool[cnt[i]]
				}
				b := bound
				if n == 3 && len(pool) > 20 {
					b = bound - 1 // unordered pool is only about conservation
				}
				emit(c04Input{Logs: logs, Mode: "bound", Bound: b})
				k := 0
				for k < n {
					cnt[k]++
					if cnt[k] < len(pool) {
						break
					}
					cnt[k] = 0
					k++
				}
				if k == n {
					break
				}
			}
		}
	}
	// (b) selected inventories (ties, empties, all-equal), every interleaving.
	sel := [][][]int{
		{{1, 2}, {1, 2}, {1, 2}}, {{1}, {1}, {1}}, {{}, {1}, {}}, {{2, 2}, {1, 3}, {2}},
		{{3}, {2}, {1}}, {{1, 1, 1}, {1, 1}, {1}}, {{}, {}, {}}, {{1, 3}, {2}, {2, 2}},
	}
	if r.Thorough() {
		sel = append(sel, [][][]int{
			{{1, 2, 3}, {1, 2, 3}, {1, 2, 3}}, {{2}, {}, {2}}, {{1, 2}, {2, 3}, {1, 3}}, {{3, 3}, {3}, {}},
			{{1}, {2, 2, 2}, {3}}, {{2, 1}, {1, 2}, {2}}, {{1, 1}, {}, {1, 1}}, {{2, 3}, {1}, {1, 2, 3}},
			{{1, 2}, {1, 2}}, {{}, {}}, {{1}, {1}}, {{3, 1}, {2}},
			{{1, 2, 2}, {2, 2, 3}, {2}}, {{3}, {3}, {3}}, {{1, 3}, {1, 3}, {2}}, {{2}, {1, 1}, {3, 3}},
		}...)
	}
	for _, logs := range sel {
		emit(c04Input{Logs: logs, Mode: "all"})
	}
	// (b') records with empty messages are records too
	for _, logs := range [][][]int{{{1, 2}, {1, 2}}, {{1}, {1}, {1}}, {{2, 2, 3}, {1, 3}}, {{1, 1, 1}, {}, {1}}} {
		emit(c04Input{Logs: logs, Mode: "bound", Bound: 1, Empty: true})
		emit(c04Input{Logs: logs, Mode: "bound", Bound: 1, TwoNames: true})
		emit(c04Input{Logs: logs, Mode: "bound", Bound: 1, SameMsg: true})
		emit(c04Input{Logs: logs, Mode: "bound", Bound: 1, IDLabel: true})
		emit(c04Input{Logs: logs, Mode: "bound", Bound: 1, Long: true})
		emit(c04Input{Logs: logs, Mode: "bound", Bound: 1, Early: true})
		for pre := 1; pre <= 3; pre++ {
			emit(c04Input{Logs: logs, Mode: "bound", Bound: 1, Pre: pre})
			emit(c04Input{Logs: logs, Mode: "bound", Bound: 1, Pre: pre, PreAlive: true})
		}
	}
	// (c) every completion order of the concurrent opens for N = 2..5.
	maxN := 5
	for n := 2; n <= maxN; n++ {
		datasets := [][][]int{}
		all1 := make([][]int, n)
		stair := make([][]int, n)
		mixed := make([][]int, n)
		for i := 0; i < n; i++ {
			all1[i] = []int{1}
			stair[i] = []int{n - i, n - i + 1}
			mixed[i] = [][]int{{}, {2}, {1, 2}, {2, 2}, {1, 3}}[i%5]
		}
		datasets = append(datasets, all1, stair, mixed)
		for _, logs := range datasets {
			for _, p := range perms(n) {
				emit(c04Input{Logs: logs, Mode: "perm", Perm: p})
			}
		}
	}
	// (d) many containers (beyond every small-size threshold of heap, slice and map code): rotations and the reversal of
	// the completion order, records with ties across containers and long per-container logs
	for _, n := range []int{9, 17, 65, 300} {
		logs := make([][]int, n)
		for i := range logs {
			for j := 0; j < 1+i%4; j++ {
				logs[i] = append(logs[i], 1+(i+j)%3+j)
			}
			sort.Ints(logs[i])
		}
		logs[n/2] = nil
		long := make([]int, 300)
		for j := range long {
			long[j] = 1 + j/100
		}
		logs[n-1] = long
		for _, rot := range []int{0, 1, n / 2} {
			p := make([]int, n)
			q := make([]int, n)
			for i := range p {
				p[i] = (i + rot) % n
				q[i] = n - 1 - p[i]
			}
			emit(c04Input{Logs: logs, Mode: "perm1", Perm: p})
			emit(c04Input{Logs: logs, Mode: "perm1", Perm: q})
		}
	}
	r.Note("bounds", fmt.Sprintf("N<=3 containers x sequences of <=%d records over 3 timestamps, preemption bound %d; %d inventories with all interleavings; all N! completion orders for N<=%d; 9, 17, 65 and 300 containers (one with 300 records) under 6 completion orders each", maxLen, bound, len(sel), maxN))
}

func c04Replay(r *vkit.Run, v vkit.Violation) *vkit.Violation {
	var in c04Input
	if err := vkit.DecodeInput(v, &in); err != nil {
		r.HarnessError("bad input: %v", err)
	}
	return vkit.ReplayOne(r, func() {
		ref := c04Exec(vsched.NewCtx(nil), in)
		c := vsched.NewCtx(v.Choices)
		obs := c04Exec(c, in)
		if c.Diverged != "" {
			r.HarnessError("replay divergence: %s", c.Diverged)
		}
		if why := c04Oracle(in, obs); why != "" {
			r.Fail("C04/oracle", in, v.Choices, obs, nil, why, "")
		} else if strings.Join(obs.Out, "|") != strings.Join(ref.Out, "|") {
			r.Fail("C04/schedule-independence", in, v.Choices, obs.Out, ref.Out, "merged output differs from the default schedule", "")
		}
	})
}
