//go:build verif

package main

import (
	"context"
	"encoding/json"
	"fmt"
	"regexp"
	"sort"
	"strconv"
	"strings"
	"time"
	"unicode/utf8"

	"github.com/tdakkota/docker-logql/internal/dockerlog"
	"github.com/tdakkota/docker-logql/internal/logql/logqlengine"
	"github.com/tdakkota/docker-logql/internal/lokiapi"
	"github.com/tdakkota/docker-logql/internal/otelstorage"
	"github.com/tdakkota/docker-logql/internal/zzverif/fakedocker"
	"github.com/tdakkota/docker-logql/internal/zzverif/vkit"
	"github.com/tdakkota/docker-logql/internal/zzverif/vsched"
)

// refKeyToLabel is the character-wise specification of the sanitiser.
func refKeyToLabel(key string) string {
	var sb strings.Builder
	for i := 0; i < len(key); {
		r, w := utf8.DecodeRuneInString(key[i:])
		valid := w == 1 && (r == '_' || (r >= 'a' && r <= 'z') || (r >= 'A' && r <= 'Z') || (r >= '0' && r <= '9'))
		if i == 0 && r >= '0' && r <= '9' && w == 1 {
			sb.WriteByte('_') // a name cannot start with a digit (pinned by the suite: "0foo" -> "_0foo")
		}
		if valid {
			sb.WriteByte(byte(r))
		} else {
			sb.WriteByte('_') // one offending character (or invalid byte) -> one underscore
		}
		i += w
	}
	return sb.String()
}

var validName = regexp.MustCompile(`^[A-Za-z_][A-Za-z0-9_]*$`)

type c20Input struct {
	Key string `json:"key"`
	E2E bool   `json:"e2e"`
}

var c20Builtin = map[string]bool{
	"container": true, "container_id": true, "container_name": true, "container_image": true, "container_image_id": true,
	"container_command": true, "container_created": true, "container_state": true, "container_status": true,
}

func c20E2E(key string) (lines []string, errText string, panics []string) {
	mk := func(id string, labels map[string]string) fakedocker.Container {
		return fakedocker.Container{ID: id, Name: "/" + id, Image: "img", State: "running", Labels: labels,
			Log: fakedocker.Encode([]fakedocker.Rec{{Stream: 1, TS: fakedocker.TS(1 * sec), Msg: "from-" + id}})}
	}
	// The Querier has answered a query before, when the daemon ran another container only: the container carrying the
	// label was started since (what is listed is what the daemon runs now).
	ctrs := []fakedocker.Container{mk("carrier", map[string]string{key: "v"}), mk("other", map[string]string{})}
	fake := fakedocker.New([]fakedocker.Container{mk("earlier", map[string]string{})})
	name := otelstorage.KeyToLabel(key)
	s := vsched.RunMain(vsched.NewCtx(nil), func() {
		q, _ := dockerlog.NewQuerier(fake)
		eng := newEngine(q)
		_, _ = eng.Eval(context.Background(), `{}`, logqlengine.EvalParams{Start: 0, End: otelstorage.Timestamp(3 * sec), Step: time.Second, Limit: -1})
		fake.Containers = ctrs
		fake.Opened, fake.Closed, fake.ReadBytes = make([]int, len(ctrs)), make([]int, len(ctrs)), make([]int, len(ctrs))
		data, err := eng.Eval(context.Background(), "{"+name+"="+strconv.Quote("v")+"}", logqlengine.EvalParams{Start: 0, End: otelstorage.Timestamp(3 * sec), Step: time.Second, Limit: -1})
		if err != nil {
			errText = err.Error()
			return
		}
		if data.Type == lokiapi.StreamsResultQueryResponseData {
			for _, st := range data.StreamsResult.Result {
				for _, e := range st.Values {
					lines = append(lines, e.V)
				}
			}
		}
	})
	return lines, errText, s.Panics
}

// c20JSON: a log line {"<key>":"v"} read with `| json` (no field list) must expose the value under the sanitised key.
func c20JSON(key string) (labels map[string]string, errText string, panics []string) {
	return c20JSONAfter(key, 0)
}

// c20JSONAfter: the same, after `history` earlier lines of the same query that hold ten other keys each (whatever the
// stage remembers about keys it has seen must not change how the next key is named).
func c20JSONAfter(key string, history int) (labels map[string]string, errText string, panics []string) {
	doc, _ := json.Marshal(map[string]string{key: "v"})
	var recs []fakedocker.Rec
	for h := 0; h < history; h++ {
		m := map[string]string{}
		for k := 0; k < 10; k++ {
			m[fmt.Sprintf("h%d_%d", h, k)] = "x"
		}
		line, _ := json.Marshal(m)
		recs = append(recs, fakedocker.Rec{Stream: 1, TS: fakedocker.TS(int64(h+1) * 1e6), Msg: string(line)})
	}
	recs = append(recs, fakedocker.Rec{Stream: 1, TS: fakedocker.TS(1 * sec), Msg: string(doc)})
	// every second history length: the container carries a Docker label with the same key (the same label name, then)
	dockerLabels := map[string]string{}
	if history%2 == 1 || history == 0 && len(key)%2 == 0 {
		dockerLabels[key] = "from-docker"
	}
	fake := fakedocker.New([]fakedocker.Container{{ID: "c", Name: "/c", Image: "img", State: "running", Labels: dockerLabels,
		Log: fakedocker.Encode(recs)}})
	s := vsched.RunMain(vsched.NewCtx(nil), func() {
		q, _ := dockerlog.NewQuerier(fake)
		data, err := newEngine(q).Eval(context.Background(), `{} | json`, logqlengine.EvalParams{Start: 0, End: otelstorage.Timestamp(3 * sec), Step: time.Second, Limit: -1})
		if err != nil {
			errText = err.Error()
			return
		}
		if data.Type == lokiapi.StreamsResultQueryResponseData {
			for _, st := range data.StreamsResult.Result {
				if len(st.Values) == 0 || st.Values[0].V != string(doc) {
					continue // a line of the history
				}
				labels = map[string]string{}
				for k, v := range st.Stream.Value {
					labels[k] = v
				}
			}
		}
	})
	return labels, errText, s.Panics
}

// c20ValueCheck: a container carrying Docker label key=value (a valid name) is selected by {key="value"}, and only it.
func c20ValueCheck(r *vkit.Run, key, value string) {
	in := c20Input{Key: key + "=" + value, E2E: true}
	r.Begin("C20/e2e", in)
	mk := func(id string, labels map[string]string) fakedocker.Container {
		return fakedocker.Container{ID: id, Name: "/" + id, Image: "img", State: "running", Labels: labels,
			Log: fakedocker.Encode([]fakedocker.Rec{{Stream: 1, TS: fakedocker.TS(1 * sec), Msg: "from-" + id}})}
	}
	other := "other-value"
	fake := fakedocker.New([]fakedocker.Container{mk("carrier", map[string]string{key: value}), mk("other", map[string]string{key: other}), mk("none", map[string]string{})})
	var lines []string
	var errText string
	s := vsched.RunMain(vsched.NewCtx(nil), func() {
		q, _ := dockerlog.NewQuerier(fake)
		data, err := newEngine(q).Eval(context.Background(), "{"+key+"="+strconv.Quote(value)+"}", logqlengine.EvalParams{Start: 0, End: otelstorage.Timestamp(3 * sec), Step: time.Second, Limit: -1})
		if err != nil {
			errText = err.Error()
			return
		}
		for _, st := range data.StreamsResult.Result {
			for _, e := range st.Values {
				lines = append(lines, e.V)
			}
		}
	})
	r.Eval()
	sort.Strings(lines)
	want := []string{"from-carrier"}
	if value == "" {
		want = []string{"from-carrier", "from-none"} // an absent label reads as the empty string
	}
	switch {
	case len(s.Panics) > 0:
		r.Fail("C20/e2e", in, nil, s.Panics, nil, "panic", "")
	case errText != "":
		r.Fail("C20/e2e", in, nil, errText, want, fmt.Sprintf("selector {%s=%q} fails: %s", key, value, errText), "")
	case strings.Join(lines, ",") != strings.Join(want, ","):
		r.Fail("C20/e2e", in, nil, lines, want, fmt.Sprintf("selector {%s=%q} over containers labelled %s=%q, %s=%q and without the label returned %v", key, value, key, value, key, other, lines), "")
	}
}

func c20Check(r *vkit.Run, in c20Input) {
	r.Begin("C20", in)
	key := in.Key
	r.Eval()
	r.Step(len(key) + 1)
	var got string
	var pan any
	func() {
		defer func() { pan = recover() }()
		got = otelstorage.KeyToLabel(key)
	}()
	if pan != nil {
		r.Fail("C20", in, nil, fmt.Sprint("panic: ", pan), refKeyToLabel(key), fmt.Sprintf("KeyToLabel(%q) panics: %v", key, pan), "")
		return
	}
	want := refKeyToLabel(key)
	fail := func(why, finding string) {
		r.Fail("C20", in, nil, got, want, why, finding)
	}
	switch {
	case got != want:
		fail(fmt.Sprintf("KeyToLabel(%q) = %q, character-wise specification gives %q", key, got, want), "")
		return
	case !validName.MatchString(got):
		fail(fmt.Sprintf("KeyToLabel(%q) = %q is not a valid label name", key, got), "")
		return
	case validName.MatchString(key) && got != key:
		fail("valid name changed", "")
		return
	case otelstorage.KeyToLabel(got) != got:
		fail("mapping is not idempotent", "")
		return
	}
	if !in.E2E || c20Builtin[got] {
		return
	}
	lines, errText, panics := c20E2E(key)
	r.Eval()
	switch {
	case len(panics) > 0:
		r.Fail("C20/e2e", in, nil, panics, nil, "panic", "")
	case errText != "":
		finding := ""
		if strings.Contains(errText, "parse") && c20Keyword[got] {
			finding = "C20-keyword-label-names"
		}
		r.Fail("C20/e2e", in, nil, errText, []string{"from-carrier"}, fmt.Sprintf("selector {%s=\"v\"} for Docker label %q fails: %s", got, key, errText), finding)
	case len(lines) != 1 || lines[0] != "from-carrier":
		r.Fail("C20/e2e", in, nil, lines, []string{"from-carrier"}, fmt.Sprintf("selector {%s=\"v\"} must select exactly the container carrying Docker label %q=v", got, key), "")
	}
	// the JSON-key side: only for keys JSON can carry verbatim (dictionary keys also after 150 and 300 other keys)
	histories := []int{0}
	if len(key) > 4 || strings.ContainsAny(key, "./-") {
		histories = []int{0, 15, 30}
	}
	for _, hist := range histories {
		if !utf8.ValidString(key) || got == "msg" {
			break
		}
		labels, jerr, jp := c20JSONAfter(key, hist)
		r.Eval()
		switch {
		case len(jp) > 0:
			r.Fail("C20/json", in, nil, jp, nil, "panic", "")
		case jerr != "":
			r.Fail("C20/json", in, nil, jerr, nil, "`{} | json` failed: "+jerr, "")
		case labels[got] != "v":
			r.Fail("C20/json", in, nil, labels, map[string]string{got: "v"}, fmt.Sprintf("JSON key %q read by `| json` must be exposed as label %s", key, got), "")
		default:
			for k := range labels {
				if !validName.MatchString(k) {
					r.Fail("C20/json", in, nil, labels, nil, fmt.Sprintf("`| json` exposed the invalid label name %q for key %q (after %d earlier lines)", k, key, hist), "")
					break
				}
			}
		}
	}
}

// c20Keyword: the LogQL keywords that are not function names (the lexer never turns them back into identifiers).
var c20Keyword = map[string]bool{}

func init() {
	for _, k := range strings.Fields("by without bool offset on ignoring group_left group_right or and unless unwrap json regexp logfmt unpack pattern label_format line_format decolorize distinct drop keep") {
		c20Keyword[k] = true
	}
}

func c20Run(r *vkit.Run) {
	// (the characters between 'Z' and 'a' and around the digit and letter ranges are there for range-based tests)
	syms := []string{"a", "Z", "0", "9", "_", ".", "-", "/", " ", "é", "世", "\xff", "\xc3", "[", "^", "`", "@", "{", ":"}
	maxLen := 4
	if r.Thorough() {
		maxLen = 5
	}
	idx := 0
	var rec func(cur string, n int)
	rec = func(cur string, n int) {
		if n > 0 {
			idx++
			if r.Mine(idx) && !r.Stop() {
				in := c20Input{Key: cur, E2E: n <= 3}
				c20Check(r, in)
				if otelstorage.KeyToLabel(cur) != cur {
					r.NonTrivial()
				}
				if n <= 2 {
					r.State(cur)
				}
				if r.WantSample() && n == 3 && strings.ContainsAny(cur, "./") {
					r.Sample(map[string]any{"key": cur, "label": otelstorage.KeyToLabel(cur), "end_to_end": true})
				}
			}
		}
		if n == maxLen {
			return
		}
		for _, s := range syms {
			rec(cur+s, n+1)
		}
	}
	rec("", 0)
	// every character of the Basic Multilingual Plane (and a few beyond), alone, leading and inside a key: the mapping
	// and its three laws, without the end-to-end part
	for cp := rune(0); cp <= 0x1FFFF; cp++ {
		if cp >= 0xD800 && cp <= 0xDFFF {
			continue
		}
		if cp > 0xFFFF && cp%97 != 0 {
			continue
		}
		idx++
		if r.Mine(idx) && !r.Stop() {
			for _, k := range []string{string(cp), "a" + string(cp), string(cp) + "9", "a" + string(cp) + "b"} {
				c20Check(r, c20Input{Key: k})
			}
		}
	}
	r.GlobalState("every-character")
	// Docker labels named like labels the engine derives from a record itself, with values that look like theirs
	for _, kv := range [][2]string{{"msg", "v"}, {"level", "debug"}, {"level", "Info"}, {"trace_id", "v"}, {"span_id", "v"}, {"msg", ""}, {"k", ""}} {
		idx++
		if r.Mine(idx) && !r.Stop() {
			c20ValueCheck(r, kv[0], kv[1])
		}
	}
	dict := strings.Fields("łódź tašk ıd a.乁 com.docker.compose.project com.docker.compose.service org.opencontainers.image.title org.opencontainers.image.source maintainer io.kubernetes.pod.name desktop.docker.io/binds/0/Source 0day 9 traefik.http.routers.web.rule ip rate count sum sort topk vector bytes duration duration_seconds label_replace inf nan infinity true false null e pi")
	for k := range c20Keyword {
		dict = append(dict, k)
	}
	// keys longer than any fixed-size scratch buffer: offending characters near the end, a leading digit, many dots
	dict = append(dict, strings.Repeat("k", 60)+".io/name", "0"+strings.Repeat("9", 63), strings.Repeat("a.b/", 80), strings.Repeat("x", 300)+"."+strings.Repeat("y", 300), strings.Repeat("é", 40)+"z")
	// the same words in other letter cases are ordinary names (label names are case-sensitive)
	for _, k := range append([]string(nil), dict...) {
		if up := strings.ToUpper(k); up != k && !strings.ContainsAny(k, "./ ") {
			dict = append(dict, up, strings.ToUpper(k[:1])+k[1:])
		}
	}
	sort.Strings(dict)
	for _, k := range dict {
		idx++
		if r.Mine(idx) && !r.Stop() {
			c20Check(r, c20Input{Key: k, E2E: true})
			r.State(k)
		}
	}
	r.Note("bounds", fmt.Sprintf("all strings of length 1..%d over 19 symbols (letters, digits, _, ., -, /, space, 2- and 3-byte runes, invalid bytes); every character of the Basic Multilingual Plane alone, leading, trailing and inside a key; end-to-end selection through Engine.Eval for every key of length <=3 and a %d-key dictionary incl. all LogQL keywords", maxLen, len(dict)))
}

func c20Replay(r *vkit.Run, v vkit.Violation) *vkit.Violation {
	var in c20Input
	if err := vkit.DecodeInput(v, &in); err != nil {
		r.HarnessError("bad input: %v", err)
	}
	if k, v, ok := strings.Cut(in.Key, "="); ok && validName.MatchString(k) && in.E2E {
		return vkit.ReplayOne(r, func() { c20ValueCheck(r, k, v) })
	}
	return vkit.ReplayOne(r, func() { c20Check(r, in) })
}
