//go:build verif

package main

import (
	"context"
	"encoding/binary"
	"errors"
	"fmt"
	"io"
	"sort"
	"strings"
	"time"

	"go.opentelemetry.io/collector/pdata/pcommon"

	"github.com/tdakkota/docker-logql/internal/dockerlog"
	"github.com/tdakkota/docker-logql/internal/logql/logqlengine"
	"github.com/tdakkota/docker-logql/internal/logstorage"
	"github.com/tdakkota/docker-logql/internal/otelstorage"
	"github.com/tdakkota/docker-logql/internal/zzverif/fakedocker"
	"github.com/tdakkota/docker-logql/internal/zzverif/vkit"
	"github.com/tdakkota/docker-logql/internal/zzverif/vsched"
)

// c03Rec is one record of the alphabet: wire text of the timestamp + the instant it denotes.
type c03Rec struct {
	Stream byte   `json:"stream"`
	TS     string `json:"ts"`
	NS     int64  `json:"ns"`
	Msg    string `json:"msg"`
}

// c03Env is the environment behaviour of one run.
type c03Env struct {
	Kind string `json:"kind"` // full, cuts, bytewise, framewise, stall, eof-with-data, truncate, readerr, systemerr, badts, nospace, oversize
	Cuts []int  `json:"cuts,omitempty"`
	At   int    `json:"at,omitempty"` // offset or record index
}

type c03Input struct {
	Recs []c03Rec `json:"recs"`
	Env  c03Env   `json:"env"`
}

type c03Obs struct {
	Recs []c03Rec `json:"recs"`
	Err  string   `json:"err,omitempty"`
	Pan  string   `json:"panic,omitempty"`
	// ErrForgotten: Err() was non-nil when Next first returned false and nil after Next was called again
	// (consumers such as the range aggregation call Next again at every later step).
	ErrForgotten bool `json:"err_forgotten,omitempty"`
}

var errC03 = errors.New("verif: injected read error")

// planReader delivers data according to the environment behaviour.
type planReader struct {
	data     []byte
	pos      int
	cuts     []int // sorted offsets where a Read must stop
	maxChunk int   // 0 = unlimited
	frameEnd []int // when framewise: a read never crosses these
	stallAt  int   // one (0,nil) read when pos == stallAt (-1 = never)
	stalled  bool
	eofWith  bool // deliver io.EOF together with the last bytes
	errAt    int  // return errC03 when pos == errAt (-1 = never)
	closed   int
}

func (r *planReader) Read(p []byte) (int, error) {
	if len(p) == 0 {
		return 0, nil
	}
	if r.errAt >= 0 && r.pos >= r.errAt {
		return 0, errC03
	}
	if r.stallAt >= 0 && r.pos == r.stallAt && !r.stalled {
		r.stalled = true
		return 0, nil
	}
	rem := len(r.data) - r.pos
	if rem == 0 {
		return 0, io.EOF
	}
	n := len(p)
	if n > rem {
		n = rem
	}
	if r.maxChunk > 0 && n > r.maxChunk {
		n = r.maxChunk
	}
	for _, c := range r.cuts {
		if c > r.pos && c < r.pos+n {
			n = c - r.pos
		}
	}
	for _, c := range r.frameEnd {
		if c > r.pos && c < r.pos+n {
			n = c - r.pos
		}
	}
	if r.errAt >= 0 && r.pos+n > r.errAt {
		n = r.errAt - r.pos
	}
	copy(p, r.data[r.pos:r.pos+n])
	r.pos += n
	if r.eofWith && r.pos == len(r.data) {
		return n, io.EOF
	}
	return n, nil
}

func (r *planReader) Close() error { r.closed++; return nil }

// c03Wire builds the byte stream and the expected outcome for an input.
// expN = number of records that must be decoded, expErr = whether Err() must be non-nil.
func c03Wire(in c03Input) (data []byte, rd *planReader, expN int, expErr bool) {
	var frames [][]byte
	for _, r := range in.Recs {
		frames = append(frames, fakedocker.Frame(r.Stream, []byte(r.TS+" "+r.Msg)))
	}
	expN = len(in.Recs)
	switch in.Env.Kind {
	case "systemerr":
		frames[in.Env.At] = fakedocker.Frame(fakedocker.Systemerr, []byte("daemon failure"))
		expN, expErr = in.Env.At, true
	case "badts":
		frames[in.Env.At] = fakedocker.Frame(in.Recs[in.Env.At].Stream, []byte("2024-13-45T99:00:00Z "+in.Recs[in.Env.At].Msg))
		expN, expErr = in.Env.At, true
	case "badts-fixed": // the daemon's fixed-width layout, but no date
		frames[in.Env.At] = fakedocker.Frame(in.Recs[in.Env.At].Stream, []byte("2024-13-45T99:61:61.000000001Z "+in.Recs[in.Env.At].Msg))
		expN, expErr = in.Env.At, true
	case "nospace":
		frames[in.Env.At] = fakedocker.Frame(in.Recs[in.Env.At].Stream, []byte("nospacehere"))
		expN, expErr = in.Env.At, true
	case "empty-frame": // a frame without payload carries no timestamp: unparsable, reported
		frames[in.Env.At] = fakedocker.Frame(in.Recs[in.Env.At].Stream, nil)
		expN, expErr = in.Env.At, true
	case "empty-systemerr": // a daemon error frame without text is a daemon error all the same
		frames[in.Env.At] = fakedocker.Frame(fakedocker.Systemerr, nil)
		expN, expErr = in.Env.At, true
	case "oversize":
		f := frames[in.Env.At]
		binary.BigEndian.PutUint32(f[4:8], uint32(len(f)-8+1000))
		frames = frames[:in.Env.At+1]
		expN, expErr = in.Env.At, true
	}
	var ends []int
	for _, f := range frames {
		data = append(data, f...)
		ends = append(ends, len(data))
	}
	rd = &planReader{stallAt: -1, errAt: -1}
	switch in.Env.Kind {
	case "cuts":
		rd.cuts = in.Env.Cuts
	case "bytewise":
		rd.maxChunk = 1
	case "framewise":
		rd.frameEnd = ends
	case "stall":
		rd.stallAt = in.Env.At
	case "eof-with-data":
		rd.eofWith = true
	case "truncate", "readerr":
		p := in.Env.At
		// records wholly before p survive
		expN = 0
		start := 0
		inBody := false
		for i, e := range ends {
			if e <= p {
				expN = i + 1
				start = e
			}
		}
		if p > start+8 || (p == start+8 && p < len(data) && len(frames[expN]) > 8) {
			inBody = true
		}
		if in.Env.Kind == "truncate" {
			data = data[:p]
			// cut inside a header (or at a frame boundary): clean end; inside a body: error
			expErr = inBody
		} else {
			rd.errAt = p
			expErr = true
		}
	}
	rd.data = data
	return data, rd, expN, expErr
}

func c03Exec(in c03Input) (obs c03Obs, rd *planReader) {
	_, rd, _, _ = c03Wire(in)
	func() {
		defer func() {
			if p := recover(); p != nil {
				obs.Pan = fmt.Sprint(p)
			}
		}()
		it := dockerlog.ParseLog(rd, otelstorage.Attrs(pcommon.NewMap()))
		var rec logstorage.Record
		for it.Next(&rec) {
			obs.Recs = append(obs.Recs, c03Rec{NS: int64(rec.Timestamp), Msg: rec.Body})
			if len(obs.Recs) > len(in.Recs)+2 {
				break
			}
		}
		if err := it.Err(); err != nil {
			obs.Err = err.Error()
			for k := 0; k < 2; k++ {
				it.Next(&rec)
			}
			obs.ErrForgotten = it.Err() == nil
		}
		_ = it.Close()
	}()
	return obs, rd
}

func c03Check(r *vkit.Run, in c03Input) {
	r.Begin("C03", in)
	_, _, expN, expErr := c03Wire(in)
	obs, rd := c03Exec(in)
	r.Eval()
	r.Step(1 + len(in.Env.Cuts))
	fail := func(why string) {
		exp := map[string]any{"records": in.Recs[:expN], "error_expected": expErr}
		r.Fail("C03", in, nil, obs, exp, why, "")
	}
	switch {
	case obs.Pan != "":
		fail("panic: " + obs.Pan)
	case len(obs.Recs) != expN:
		fail(fmt.Sprintf("decoded %d records, expected exactly the %d whole records before the cut/fault", len(obs.Recs), expN))
	case expErr && obs.Err == "":
		fail("stream broke inside a frame body / daemon error frame / bad timestamp / read error, but no error is reported")
	case obs.ErrForgotten:
		fail("the failure was reported (" + obs.Err + ") and then forgotten: after two more Next calls Err() is nil, so a consumer that polls the iterator again sees a clean, shorter log")
	case !expErr && obs.Err != "":
		fail("clean stream (or cut inside a header / at a frame boundary) reported an error: " + obs.Err)
	case rd.closed < 1:
		fail("reader not closed by Close")
	default:
		for i, got := range obs.Recs {
			want := in.Recs[i]
			if got.NS != want.NS {
				fail(fmt.Sprintf("record %d: timestamp %d, expected %d", i, got.NS, want.NS))
				return
			}
			if got.Msg != want.Msg {
				fail(fmt.Sprintf("record %d: message %q, expected %q", i, got.Msg, want.Msg))
				return
			}
		}
	}
}

// c03E2ECheck: the same records seen where a user sees them, in the answer of Engine.Eval to `{}` over a fake Docker
// client serving the stream (Env "e2e": one container; "e2e2": two containers serving the same stream each): every
// record is an entry, with its timestamp and its message, as often as it was logged.
func c03E2ECheck(r *vkit.Run, in c03Input) {
	r.Begin("C03/e2e", in)
	var frames []byte
	var lo, hi int64 = 1 << 62, 0
	for _, rec := range in.Recs {
		frames = append(frames, fakedocker.Frame(rec.Stream, []byte(rec.TS+" "+rec.Msg))...)
		lo, hi = min(lo, rec.NS), max(hi, rec.NS)
	}
	n := 1
	if in.Env.Kind == "e2e2" {
		n = 2
	}
	var ctrs []fakedocker.Container
	for i := 0; i < n; i++ {
		ctrs = append(ctrs, fakedocker.Container{ID: fmt.Sprintf("id%d", i), Name: fmt.Sprintf("/n%d", i), Image: "img", State: "running", Log: frames})
	}
	fake := fakedocker.New(ctrs)
	got := map[string]int{}
	var errText string
	s := vsched.RunMain(vsched.NewCtx(nil), func() {
		q, _ := dockerlog.NewQuerier(fake)
		data, err := newEngine(q).Eval(context.Background(), `{}`, logqlengine.EvalParams{Start: otelstorage.Timestamp(lo - lo%sec), End: otelstorage.Timestamp(hi - hi%sec + sec), Step: time.Second, Limit: -1})
		if err != nil {
			errText = err.Error()
			return
		}
		for _, st := range data.StreamsResult.Result {
			for _, e := range st.Values {
				got[fmt.Sprintf("%d %q", int64(e.T), e.V)]++
			}
		}
	})
	r.Eval()
	r.Step(len(in.Recs))
	want := map[string]int{}
	for _, rec := range in.Recs {
		want[fmt.Sprintf("%d %q", rec.NS, rec.Msg)] += n
	}
	fail := func(why string) {
		r.Fail("C03/e2e", in, nil, map[string]any{"entries": got, "err": errText, "panics": s.Panics}, want, why, "")
	}
	switch {
	case len(s.Panics) > 0:
		fail("panic: " + strings.Join(s.Panics, "; "))
	case errText != "":
		fail("`{}` over a well-formed stream failed: " + errText)
	default:
		keys := make([]string, 0, len(want))
		for k := range want {
			keys = append(keys, k)
		}
		sort.Strings(keys)
		for _, k := range keys {
			if got[k] != want[k] {
				fail(fmt.Sprintf("entry %s returned %d times, logged %d times", k, got[k], want[k]))
				return
			}
		}
		for k := range got {
			if want[k] == 0 {
				fail("entry " + k + " was never logged")
				return
			}
		}
	}
}

func c03Alphabet() []c03Rec {
	type tsForm struct {
		text string
		t    time.Time
	}
	plus2 := time.FixedZone("", 2*3600)
	forms := []tsForm{
		{"2024-01-02T03:04:00Z", time.Date(2024, 1, 2, 3, 4, 0, 0, time.UTC)},
		{"2024-01-02T03:04:00.000000001Z", time.Date(2024, 1, 2, 3, 4, 0, 1, time.UTC)},
		{"2024-01-02T03:04:59.999999999+02:00", time.Date(2024, 1, 2, 3, 4, 59, 999999999, plus2)},
		// fractions of fewer than nine digits (what RFC3339Nano prints when the nanoseconds end in zeros)
		{"2024-01-02T03:04:33.5Z", time.Date(2024, 1, 2, 3, 4, 33, 500000000, time.UTC)},
		{"2024-01-02T03:04:33.012345+02:00", time.Date(2024, 1, 2, 3, 4, 33, 12345000, plus2)},
	}
	// "a b c ...": a blank at every odd offset, so that whatever fixed offset a decoder might cut the timestamp at
	// (it is the first blank that ends it) meets a blank inside the message
	msgs := []string{"", "a", "a b", " lead", "x\ny", "\xff\xfe", "t\n", "a b c d e f g h i j k l m n o p q r s t", "u\r\n", "\xef\xbb\xbfbom"}
	var out []c03Rec
	for _, m := range msgs {
		for _, f := range forms {
			for _, st := range []byte{1, 2, 0} {
				out = append(out, c03Rec{Stream: st, TS: f.text, NS: f.t.UnixNano(), Msg: m})
			}
		}
	}
	return out
}

func c03Run(r *vkit.Run) {
	alpha := c03Alphabet()
	maxLen := 2
	if r.Thorough() {
		maxLen = 3
	}
	// sequences, shortest first
	var seqs [][]c03Rec
	seqs = append(seqs, nil)
	layer := [][]c03Rec{nil}
	for l := 1; l <= maxLen; l++ {
		var next [][]c03Rec
		for _, s := range layer {
			for k, a := range alpha {
				if l == 3 && (k%3 != 0 && len(s) > 0 && s[0].Stream != 1) {
					continue // length 3: stream type varied only on the first record (reduces 63^3 to a tractable set)
				}
				next = append(next, append(append([]c03Rec(nil), s...), a))
			}
		}
		seqs = append(seqs, next...)
		layer = next
	}
	cases := int64(0)
	for idx, seq := range seqs {
		if !r.Mine(idx) {
			continue
		}
		if r.Stop() {
			break
		}
		base := c03Input{Recs: seq}
		data, _, _, _ := c03Wire(c03Input{Recs: seq, Env: c03Env{Kind: "full"}})
		B := len(data)
		run := func(e c03Env) {
			in := base
			in.Env = e
			c03Check(r, in)
			cases++
		}
		run(c03Env{Kind: "full"})
		run(c03Env{Kind: "bytewise"})
		run(c03Env{Kind: "framewise"})
		run(c03Env{Kind: "eof-with-data"})
		for p := 0; p <= B; p++ {
			run(c03Env{Kind: "truncate", At: p})
			run(c03Env{Kind: "readerr", At: p})
			run(c03Env{Kind: "stall", At: p})
		}
		// fragmentation: every single and double cut (deviation bound 2 from "full reads")
		doubles := len(seq) <= 2
		for p := 1; p < B; p++ {
			run(c03Env{Kind: "cuts", Cuts: []int{p}})
			if !doubles {
				continue
			}
			for q := p + 1; q < B; q++ {
				run(c03Env{Kind: "cuts", Cuts: []int{p, q}})
			}
		}
		for i := range seq {
			for _, k := range []string{"systemerr", "badts", "badts-fixed", "nospace", "oversize", "empty-frame", "empty-systemerr"} {
				run(c03Env{Kind: k, At: i})
			}
		}
		if len(seq) > 0 {
			r.NonTrivial()
		}
		r.State(vkit.J(seq))
		if r.WantSample() && len(seq) == maxLen {
			r.Sample(map[string]any{"records": seq, "stream_bytes": B, "env_example": c03Env{Kind: "cuts", Cuts: []int{3, B - 2}}})
		}
	}
	// frames at and around common buffer sizes (4, 16, 32, 64 KiB): decoded whole, under a few fragmentations
	if r.Shard == 0 {
		for _, n := range []int{4095, 4097, 16383, 16384, 16385, 32768, 32769, 65536, 70000} {
			big := c03Rec{Stream: 1, TS: alpha[0].TS, NS: alpha[0].NS, Msg: strings.Repeat("x", n-1) + "y"}
			for _, seq := range [][]c03Rec{{big}, {alpha[1], big, alpha[5]}, {big, big}} {
				for _, e := range []c03Env{{Kind: "full"}, {Kind: "framewise"}, {Kind: "cuts", Cuts: []int{8, 4096 + 8}}, {Kind: "eof-with-data"}, {Kind: "truncate", At: n / 2}} {
					c03Check(r, c03Input{Recs: seq, Env: e})
					cases++
				}
			}
		}
	}
	// the daemon's own fixed-width timestamps (nine fraction digits, Z) in different seconds, minutes, days and years:
	// every sequence of up to three records, and an unreadable date in that layout after good records
	if r.Shard == 2%max(r.NShards, 1) {
		var fixed []c03Rec
		for k, t := range []time.Time{time.Date(2024, 1, 2, 3, 4, 0, 1, time.UTC), time.Date(2024, 1, 2, 3, 4, 0, 999999999, time.UTC), time.Date(2024, 1, 2, 3, 4, 1, 0, time.UTC),
			time.Date(2024, 1, 2, 3, 5, 7, 123456789, time.UTC), time.Date(2025, 12, 31, 23, 59, 59, 999999999, time.UTC), time.Date(2024, 1, 2, 3, 4, 0, 500000000, time.UTC),
			// the first second after the epoch
			time.Unix(0, 1).UTC(), time.Unix(0, 500000000).UTC(), time.Unix(0, 999999999).UTC()} {
			text := t.Format("2006-01-02T15:04:05.000000000Z")
			fixed = append(fixed, c03Rec{Stream: byte(1 + k%2), TS: text, NS: t.UnixNano(), Msg: fmt.Sprintf("m%d", k)})
		}
		for _, a := range fixed {
			for _, b := range fixed {
				for _, e := range []c03Env{{Kind: "full"}, {Kind: "bytewise"}, {Kind: "badts-fixed", At: 1}} {
					c03Check(r, c03Input{Recs: []c03Rec{a, b}, Env: e})
					cases++
				}
				for _, c := range fixed {
					for _, e := range []c03Env{{Kind: "full"}, {Kind: "framewise"}, {Kind: "badts-fixed", At: 2}} {
						c03Check(r, c03Input{Recs: []c03Rec{a, b, c}, Env: e})
						cases++
					}
				}
			}
		}
	}
	// end to end: every sequence of up to three records over eight (two instants, messages that repeat, an empty one, one that is not UTF-8)
	if r.Shard == 3%max(r.NShards, 1) {
		var small []c03Rec
		for k, t := range []time.Time{time.Date(2024, 1, 2, 3, 4, 0, 1, time.UTC), time.Date(2024, 1, 2, 3, 4, 2, 0, time.UTC)} {
			for j, m := range []string{"same", "", "same ", "caf\xe9 \xff\xfe"} {
				small = append(small, c03Rec{Stream: byte(1 + (k+j)%2), TS: t.Format(time.RFC3339Nano), NS: t.UnixNano(), Msg: m})
			}
		}
		for _, kind := range []string{"e2e", "e2e2"} {
			for _, a := range small {
				c03E2ECheck(r, c03Input{Recs: []c03Rec{a}, Env: c03Env{Kind: kind}})
				for _, b := range small {
					c03E2ECheck(r, c03Input{Recs: []c03Rec{a, b}, Env: c03Env{Kind: kind}})
					for _, c := range small {
						c03E2ECheck(r, c03Input{Recs: []c03Rec{a, b, c}, Env: c03Env{Kind: kind}})
						cases++
					}
				}
			}
		}
	}
	// very long lines (a quarter megabyte and beyond): decoded whole, and a stream that breaks anywhere inside such a
	// body is an error like any other broken body
	if r.Shard == 1%max(r.NShards, 1) {
		for _, n := range []int{262143, 262144, 262145, 300000, 1<<20 + 5} {
			big := c03Rec{Stream: 1, TS: alpha[0].TS, NS: alpha[0].NS, Msg: strings.Repeat("x", n-1) + "y"}
			frame := 8 + len(alpha[0].TS) + 1 + n
			for _, seq := range [][]c03Rec{{big}, {alpha[1], big, alpha[5]}} {
				first := 0
				if len(seq) == 3 {
					first = 8 + len(alpha[1].TS) + 1 + len(alpha[1].Msg)
				}
				envs := []c03Env{{Kind: "full"}, {Kind: "cuts", Cuts: []int{first + 8, first + 8 + 262144}}}
				for _, off := range []int{9, 4096, 65536 + 8, 262144, 262144 + 8, 262144 + 9, 262144 + 8 + len(alpha[0].TS) + 1, frame - 4096, frame - 1} {
					if off < frame {
						envs = append(envs, c03Env{Kind: "truncate", At: first + off}, c03Env{Kind: "readerr", At: first + off})
					}
				}
				for _, e := range envs {
					c03Check(r, c03Input{Recs: seq, Env: e})
					cases++
				}
			}
		}
	}
	r.Count("decoder_runs", cases)
	r.Note("bounds", fmt.Sprintf("all record sequences of length <=%d over %d records (3 stream types x 5 timestamp spellings x 10 messages; length 3 varies the stream type of the first record only); per sequence: every truncation offset, every read-error offset, every stall offset, all single cuts, all double cuts (length<=2), bytewise, framewise, EOF-with-data, every position of systemerr/bad-timestamp/no-space/oversized/empty frame; lines of 256 KiB -1/0/+1, 300000 and 1 MiB + 5 bytes whole and broken at 9 offsets", maxLen, len(alpha)))
}

func c03Replay(r *vkit.Run, v vkit.Violation) *vkit.Violation {
	var in c03Input
	if err := vkit.DecodeInput(v, &in); err != nil {
		r.HarnessError("bad input: %v", err)
	}
	if v.Check == "C03/e2e" {
		return vkit.ReplayOne(r, func() { c03E2ECheck(r, in) })
	}
	return vkit.ReplayOne(r, func() { c03Check(r, in) })
}
