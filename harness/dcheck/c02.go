//go:build verif

package main

import (
	"context"
	"fmt"
	"go.opentelemetry.io/otel/trace/noop"
	"regexp"
	"sort"
	"strconv"
	"strings"
	"time"

	"github.com/tdakkota/docker-logql/internal/dockerlog"
	"github.com/tdakkota/docker-logql/internal/logql"
	"github.com/tdakkota/docker-logql/internal/logql/logqlengine"
	"github.com/tdakkota/docker-logql/internal/lokiapi"
	"github.com/tdakkota/docker-logql/internal/otelstorage"
	"github.com/tdakkota/docker-logql/internal/zzverif/fakedocker"
	"github.com/tdakkota/docker-logql/internal/zzverif/vkit"
	"github.com/tdakkota/docker-logql/internal/zzverif/vsched"
)

type c02Ctr struct {
	Names  []string          `json:"names,omitempty"` // when set: the API's name list (first one counts)
	Name   string            `json:"name"`
	Image  string            `json:"image"`
	State  string            `json:"state"`
	Labels map[string]string `json:"labels"`
}

type c02Matcher struct {
	Label string `json:"label"`
	Op    string `json:"op"`
	Value string `json:"value"`
}

type c02Input struct {
	Ctrs     []c02Ctr     `json:"ctrs"`
	Matchers []c02Matcher `json:"matchers"`
	Shape    string       `json:"shape"` // "log", "instant-log", "count", "count-offset", "instant-count"
	StartNS  int64        `json:"start_ns"`
	EndNS    int64        `json:"end_ns"`
	// StepMS: step of the range query in ms (0 = 1 s): the window asked of the daemon does not depend on it.
	StepMS int `json:"step_ms,omitempty"`
	// LookbackS: the engine is built with Options.LookbackDuration = -LookbackS seconds (0 = default, 30 s): an
	// instant query then looks that far back.
	LookbackS int `json:"lookback_s,omitempty"`
	// Before: the same Querier and Engine first answer a query over this earlier inventory (same container ids,
	// other names / states / labels) with BeforeMatchers; nothing of it may show in the answer over Ctrs.
	Before         []c02Ctr     `json:"before,omitempty"`
	BeforeMatchers []c02Matcher `json:"before_matchers,omitempty"`
	// Dots: the Engine is built with ParseOptions.AllowDots, so selectors may name labels with dots in them. No
	// container has such a label (Docker label keys are sanitised): the name reads as an absent label.
	Dots bool `json:"dots,omitempty"`
	// Limit: the entry limit of the request (0 = none): it limits the answer, never what is asked of the daemon.
	Limit int `json:"limit,omitempty"`
}

// refLabels is the specification of a container's label set.
func (c c02Ctr) refLabels(id string) map[string]string {
	name := strings.TrimPrefix(c.Name, "/")
	if c.Names != nil {
		name = ""
		if len(c.Names) > 0 {
			name = strings.TrimPrefix(c.Names[0], "/")
		}
	}
	m := map[string]string{
		"container": name, "container_name": name, "container_id": id,
		"container_image": c.Image, "container_state": c.State,
		"container_image_id": "sha256:" + c.Image, "container_command": "run " + c.State,
		"container_created": strconv.Itoa(1700000000 + len(c.Image)), "container_status": "Up " + c.State,
	}
	for k, v := range c.Labels {
		m[refKeyToLabel(k)] = v
	}
	return m
}

func refMatch(labels map[string]string, ms []c02Matcher) bool {
	for _, m := range ms {
		v := labels[m.Label] // a label the container does not have behaves as ""
		var ok bool
		switch m.Op {
		case "=":
			ok = v == m.Value
		case "!=":
			ok = v != m.Value
		case "=~":
			ok = regexp.MustCompile("^(?:" + m.Value + ")$").MatchString(v)
		case "!~":
			ok = !regexp.MustCompile("^(?:" + m.Value + ")$").MatchString(v)
		}
		if !ok {
			return false
		}
	}
	return true
}

func c02Selector(ms []c02Matcher) string {
	var parts []string
	for _, m := range ms {
		parts = append(parts, m.Label+m.Op+strconv.Quote(m.Value))
	}
	return "{" + strings.Join(parts, ",") + "}"
}

type c02Obs struct {
	Queried []string            `json:"queried"`
	Options []string            `json:"options"`
	Err     string              `json:"err,omitempty"`
	Lines   map[string][]string `json:"lines,omitempty"` // line -> sorted "k=v" of its stream
	Panics  []string            `json:"panics,omitempty"`
}

// c02Stages: pipelines whose stages write labels named like container labels. The first line of every container
// carries such fields; the second one does not, and must come back with the labels of its container.
var c02Stages = map[string]string{
	"stages:logfmt":       `| logfmt`,
	"stages:logfmt-list":  `| logfmt container_name, k`,
	"stages:json":         `| json`,
	"stages:label_format": `| label_format container_name="x{{.container_name}}"`,
	// label filters as the first stage, on labels every record has (msg comes from the record, not from the container)
	"stages:msg-filter":   `| msg=~"from-.*"`,
	"stages:msg-filter-2": `| msg!="" | container_id=~"id.*"`,
}

var c02SrcRe = regexp.MustCompile(`from-id(\d+)-(\d)`)

func c02Fake(cs []c02Ctr, shape string) []fakedocker.Container {
	var ctrs []fakedocker.Container
	for i, c := range cs {
		id := fmt.Sprintf("id%d", i)
		first := "from-" + id + "-1"
		switch shape {
		case "stages:logfmt", "stages:logfmt-list":
			first += " container_name=proxy container_state=gone k=other com_x_y=w"
		case "stages:json":
			first = `{"m":"` + first + `","container_name":"proxy","container_state":"gone","k":"other","com_x_y":"w"}`
		}
		recs := []fakedocker.Rec{
			{Stream: 1, TS: fakedocker.TS(1 * sec), Msg: first},
			{Stream: 2, TS: fakedocker.TS(2 * sec), Msg: "from-" + id + "-2"},
		}
		labels := map[string]string{}
		for k, v := range c.Labels {
			labels[k] = v
		}
		ctrs = append(ctrs, fakedocker.Container{ID: id, Name: c.Name, Names: c.Names, Image: c.Image, State: c.State, Labels: labels, Log: fakedocker.Encode(recs),
			ImageID: "sha256:" + c.Image, Command: "run " + c.State, Created: int64(1700000000 + len(c.Image)), Status: "Up " + c.State})
	}
	return ctrs
}

func c02Exec(in c02Input) (c02Obs, []fakedocker.LogCall) {
	ctrs := c02Fake(in.Ctrs, in.Shape)
	fake := fakedocker.New(ctrs)
	if len(in.Before) > 0 {
		fake = fakedocker.New(c02Fake(in.Before, in.Shape))
	}
	var obs c02Obs
	sel := c02Selector(in.Matchers)
	query := sel
	params := logqlengine.EvalParams{Start: otelstorage.Timestamp(in.StartNS), End: otelstorage.Timestamp(in.EndNS), Limit: -1}
	if strings.HasPrefix(in.Shape, "prelude:") {
		query = sel + " |~ " + strconv.Quote(strings.TrimPrefix(in.Shape, "prelude:"))
		params.Step = time.Second
	}
	if st, ok := c02Stages[in.Shape]; ok {
		query = sel + " " + st
		params.Step = time.Second
	}
	switch in.Shape {
	case "log-nostep": // a range log query without a step: still a range query over [start, end]
	case "log":
		params.Step = time.Second
	case "instant-log":
		params.End = params.Start
	case "count":
		query = "count_over_time(" + sel + "[2s])"
		params.Step = time.Second
	case "count-offset":
		query = "count_over_time(" + sel + "[2s] offset 1s)"
		params.Step = time.Second
	case "instant-count":
		query = "count_over_time(" + sel + "[2s])"
		params.End = params.Start
	}
	if in.Limit > 0 {
		params.Limit = in.Limit
	}
	if in.StepMS > 0 && params.Step != 0 {
		params.Step = time.Duration(in.StepMS) * time.Millisecond
	}
	s := vsched.RunMain(vsched.NewCtx(nil), func() {
		q, _ := dockerlog.NewQuerier(fake)
		eng := newEngine(q)
		if in.LookbackS > 0 {
			eng = logqlengine.NewEngine(q, logqlengine.Options{TracerProvider: noop.NewTracerProvider(), LookbackDuration: -time.Duration(in.LookbackS) * time.Second})
		}
		if in.Dots {
			eng = logqlengine.NewEngine(q, logqlengine.Options{TracerProvider: noop.NewTracerProvider(), ParseOptions: logql.ParseOptions{AllowDots: true}})
		}
		if len(in.Before) > 0 {
			// the earlier query, on the same Querier and Engine; then the daemon's inventory changes
			_, _ = eng.Eval(context.Background(), c02Selector(in.BeforeMatchers), params)
			fake.Containers = ctrs
			fake.Calls, fake.OpenOrder = nil, nil
			fake.Opened, fake.Closed, fake.ReadBytes = make([]int, len(ctrs)), make([]int, len(ctrs)), make([]int, len(ctrs))
		}
		data, err := eng.Eval(context.Background(), query, params)
		if err != nil {
			obs.Err = err.Error()
			return
		}
		if data.Type == lokiapi.StreamsResultQueryResponseData {
			obs.Lines = map[string][]string{}
			for _, st := range data.StreamsResult.Result {
				var kv []string
				for k, v := range st.Stream.Value {
					kv = append(kv, k+"="+v)
				}
				sort.Strings(kv)
				for _, e := range st.Values {
					obs.Lines[e.V] = kv
				}
			}
		}
	})
	obs.Panics = s.Panics
	for _, c := range fake.Calls {
		obs.Queried = append(obs.Queried, c.ID)
		o := c.Options
		obs.Options = append(obs.Options, fmt.Sprintf("since=%s until=%s stdout=%v stderr=%v ts=%v tail=%s follow=%v", o.Since, o.Until, o.ShowStdout, o.ShowStderr, o.Timestamps, o.Tail, o.Follow))
	}
	sort.Strings(obs.Queried)
	return obs, fake.Calls
}

func floorSec(ns int64) int64 {
	s := ns / sec
	if ns%sec != 0 && ns < 0 {
		s--
	}
	return s
}

func ceilSec(ns int64) int64 {
	s := floorSec(ns)
	if ns%sec != 0 {
		s++
	}
	return s
}

func c02Check(r *vkit.Run, in c02Input) {
	r.Begin("C02", in)
	obs, calls := c02Exec(in)
	r.Eval()
	r.Step(len(in.Ctrs) * (1 + len(in.Matchers)))
	var want []string
	for i, c := range in.Ctrs {
		id := fmt.Sprintf("id%d", i)
		if refMatch(c.refLabels(id), in.Matchers) {
			want = append(want, id)
		}
	}
	sort.Strings(want)
	fail := func(why, finding string) {
		r.Fail("C02", in, nil, obs, map[string]any{"queried": want}, why, finding)
	}
	if len(obs.Panics) > 0 {
		fail("panic: "+strings.Join(obs.Panics, ";"), "")
		return
	}
	if obs.Err != "" {
		fail("query failed: "+obs.Err, "")
		return
	}
	if strings.Join(obs.Queried, ",") != strings.Join(want, ",") {
		fail(fmt.Sprintf("selector %s: logs requested from [%s], matching containers are [%s]", c02Selector(in.Matchers), strings.Join(obs.Queried, ","), strings.Join(want, ",")), c02Classify(in, obs.Queried, want))
		return
	}
	// LogsOptions
	needStart, needEnd := in.StartNS, in.EndNS
	exactSince := false
	_, staged := c02Stages[in.Shape]
	switch {
	case staged:
		exactSince = true
	}
	switch in.Shape {
	case "log", "log-nostep":
		exactSince = true
	case "instant-log":
		needEnd = in.StartNS
		needStart = in.StartNS - 30*sec // default lookback; wider is acceptable
		if in.LookbackS > 0 {
			needStart = in.StartNS - int64(in.LookbackS)*sec
		}
	case "count":
		needStart = in.StartNS - 2*sec
	case "count-offset":
		needStart, needEnd = in.StartNS-3*sec, in.EndNS-1*sec
	case "instant-count":
		needStart, needEnd = in.StartNS-2*sec, in.StartNS
	}
	for _, c := range calls {
		o := c.Options
		if !o.ShowStdout || !o.ShowStderr || !o.Timestamps || o.Follow || (o.Tail != "all" && o.Tail != "") {
			fail("LogsOptions must request stdout+stderr with timestamps, whole log: "+fmt.Sprintf("%+v", o), "")
			return
		}
		since, until := int64(-1<<62), int64(1<<62)
		var err1, err2 error
		if o.Since != "" {
			since, err1 = strconv.ParseInt(o.Since, 10, 64)
		}
		if o.Until != "" {
			until, err2 = strconv.ParseInt(o.Until, 10, 64)
		}
		if err1 != nil || err2 != nil {
			fail("since/until are not whole seconds: "+o.Since+"/"+o.Until, "")
			return
		}
		switch {
		case since > floorSec(needStart):
			fail(fmt.Sprintf("since=%s is later than the window start %dns truncated to seconds (narrower window)", o.Since, needStart), "")
			return
		case exactSince && since != floorSec(needStart) && !(floorSec(needStart) <= 0 && o.Since == ""):
			fail(fmt.Sprintf("since=%s, expected the range start %dns truncated to whole seconds", o.Since, needStart), "")
			return
		case until < floorSec(needEnd):
			fail(fmt.Sprintf("until=%s is earlier than the window end %dns truncated to seconds (narrower window)", o.Until, needEnd), "")
			return
		case until > ceilSec(needEnd):
			fail(fmt.Sprintf("until=%s is not the window end %dns in whole seconds (shifted window)", o.Until, needEnd), "")
			return
		}
	}
	// origin labels
	if obs.Lines != nil {
		lineKeys := make([]string, 0, len(obs.Lines))
		for line := range obs.Lines {
			lineKeys = append(lineKeys, line)
		}
		sort.Strings(lineKeys) // the first mismatch reported must not depend on map order
		for _, line := range lineKeys {
			kv := obs.Lines[line]
			var src int
			sm := c02SrcRe.FindStringSubmatch(line)
			if sm != nil {
				src, _ = strconv.Atoi(sm[1])
			}
			if sm == nil || src >= len(in.Ctrs) || (!staged && !strings.HasPrefix(line, "from-id")) {
				fail("unexpected line "+strconv.Quote(line), "")
				return
			}
			have := map[string]string{}
			for _, p := range kv {
				k, v, _ := strings.Cut(p, "=")
				have[k] = v
			}
			ref := in.Ctrs[src].refLabels(fmt.Sprintf("id%d", src))
			if staged {
				if in.Shape == "stages:label_format" {
					ref["container_name"] = "x" + ref["container_name"] // every line on its own: once
				} else if sm[2] == "1" {
					continue // the line that carries the fields: what it extracts is its own
				}
				// what the stage adds to a line without fields (a bare key, the parse error) is not a container label
				for k := range have {
					if _, inRef := ref[k]; !inRef && (strings.HasPrefix(k, "from") || strings.HasPrefix(k, "__error")) {
						delete(have, k)
					}
				}
			}
			refKeys := make([]string, 0, len(ref))
			for k := range ref {
				refKeys = append(refKeys, k)
			}
			sort.Strings(refKeys)
			for k, hv := range have {
				if _, ok := ref[k]; !ok && k != "msg" {
					// (reported for the first such label in sorted order)
					extra := []string{}
					for k2 := range have {
						if _, ok2 := ref[k2]; !ok2 && k2 != "msg" {
							extra = append(extra, k2+"="+have[k2])
						}
					}
					sort.Strings(extra)
					_ = hv
					fail(fmt.Sprintf("line %q carries %s, a label its container does not have", line, strings.Join(extra, ", ")), "")
					return
				}
			}
			for _, k := range refKeys {
				v := ref[k]
				if k == "msg" {
					continue // a Docker label named like the line's own label: which of the two shows is stated nowhere
				}
				if hv, present := have[k]; !present || hv != v {
					fail(fmt.Sprintf("line %q carries %s=%q, its container has %s=%q", line, k, have[k], k, v), "")
					return
				}
			}
		}
		if in.Limit > 0 {
			if wantN := min(in.Limit, 2*len(want)); len(obs.Lines) != wantN {
				fail(fmt.Sprintf("%d lines returned under limit %d, %d containers matched with 2 lines each", len(obs.Lines), in.Limit, len(want)), "")
			}
		} else if (in.Shape == "log" || staged) && len(obs.Lines) != 2*len(want) {
			fail(fmt.Sprintf("%d lines returned, %d containers matched with 2 lines each", len(obs.Lines), len(want)), "")
		}
	}
}

// c02Classify attributes a container-set mismatch to a known defect class when the observation is
// exactly what that defect predicts.
func c02Classify(in c02Input, got, want []string) string {
	predict := func(neqIsEq, missingRejects bool) string {
		var out []string
		for i, c := range in.Ctrs {
			id := fmt.Sprintf("id%d", i)
			labels := c.refLabels(id)
			ok := true
			for _, m := range in.Matchers {
				v, has := labels[m.Label]
				if !has && missingRejects {
					ok = false
					break
				}
				mm := m
				if neqIsEq && m.Op == "!=" {
					mm.Op = "="
				}
				if !refMatch(map[string]string{m.Label: v}, []c02Matcher{mm}) {
					ok = false
					break
				}
			}
			if ok {
				out = append(out, id)
			}
		}
		sort.Strings(out)
		return strings.Join(out, ",")
	}
	g := strings.Join(got, ",")
	hasNeq, hasMissing := false, false
	for _, m := range in.Matchers {
		if m.Op == "!=" {
			hasNeq = true
		}
		for i, c := range in.Ctrs {
			if _, ok := c.refLabels(fmt.Sprintf("id%d", i))[m.Label]; !ok {
				hasMissing = true
			}
		}
	}
	switch {
	case hasNeq && g == predict(true, false):
		return "C02-noteq-is-eq"
	case hasMissing && g == predict(false, true):
		return "C02-missing-label-rejects"
	case hasNeq && hasMissing && g == predict(true, true):
		return "C02-noteq-is-eq+C02-missing-label-rejects"
	}
	return ""
}

func c02Variants() []c02Ctr {
	var out []c02Ctr
	for _, ls := range []map[string]string{{}, {"k": "v"}, {"k": ""}, {"com.x/y": "v"}, {"k": "v", "com.x/y": "v"}, {"k": "", "com.x/y": "v"}, {"container.role": "v", "k.d": "v", "--zone": "z"}, {"msg": "x", "zz": "v", "a0": "v"}} {
		for _, st := range []string{"running", "exited"} {
			for _, img := range []string{"i1", "i2"} {
				for _, n := range []string{"/a", "/b", "/ab"} {
					out = append(out, c02Ctr{Name: n, Image: img, State: st, Labels: ls})
				}
			}
		}
	}
	return out
}

func c02Matchers() []c02Matcher {
	var out []c02Matcher
	for _, l := range []string{"container", "container_name", "container_image", "container_state", "k", "com_x_y", "nolabel", "container_role"} {
		for _, op := range []string{"=", "!=", "=~", "!~"} {
			for _, v := range []string{"a", "b", "ab", "", "a.*", ".*", ".+", "a|b", "v", "i1", "running", "^a|b$", "^(a)$", "(?i)A", "(?i)RUNNING|I1|V"} {
				out = append(out, c02Matcher{Label: l, Op: op, Value: v})
			}
		}
	}
	// the remaining built-in labels
	for _, m := range [][2]string{{"container_id", "id0"}, {"container_id", "id[12]"}, {"container_image_id", "sha256:i1"}, {"container_command", "run running"}, {"container_command", "run.*"},
		{"container_created", "1700000002"}, {"container_status", "Up exited"}, {"container_status", "Up.*"}} {
		for _, op := range []string{"=", "!=", "=~", "!~"} {
			out = append(out, c02Matcher{Label: m[0], Op: op, Value: m[1]})
		}
	}
	return out
}

// c02Prelude uses every regex text of the alphabet as an (unanchored) line-filter regex first.
func c02Prelude() {
	vars := c02Variants()
	for _, v := range []string{"a", "b", "ab", "a.*", ".*", ".+", "a|b", "v", "i1", "running", "id[12]", "run.*", "Up.*"} {
		_, _ = c02Exec(c02Input{Ctrs: vars[:2], Matchers: []c02Matcher{{Label: "container", Op: "=~", Value: ".*"}}, Shape: "prelude:" + v, StartNS: 0, EndNS: 3 * sec})
	}
}

func c02Run(r *vkit.Run) {
	vars := c02Variants()
	ms := c02Matchers()
	// Non-initial state: the same texts are first used as (unanchored) line-filter regexes in this process, so
	// that anything cached per pattern text across queries would be met in its other role by the selectors below.
	c02Prelude()
	// inventories: consecutive triples of the variant list (every variant is in exactly one), plus
	// singletons and pairs that repeat a name (same name, different image/state).
	var invs [][]c02Ctr
	for i := 0; i+2 < len(vars); i += 3 {
		invs = append(invs, []c02Ctr{vars[i], vars[i+1], vars[i+2]})
	}
	invs = append(invs, []c02Ctr{vars[0]}, []c02Ctr{vars[0], vars[12]}, []c02Ctr{}, []c02Ctr{vars[5], vars[40], vars[70]})
	// name lists: several names (the first one counts), no name at all, a name without leading slash
	invs = append(invs, []c02Ctr{
		{Names: []string{"/b", "/a"}, Image: "i1", State: "running", Labels: map[string]string{"k": "v"}},
		{Names: []string{}, Image: "i2", State: "exited", Labels: map[string]string{}},
		{Names: []string{"ab"}, Image: "i1", State: "running", Labels: map[string]string{"k": ""}},
	})
	times := []int64{0, 1 * sec, 1500000000, 2999999999}
	idx := 0
	one := func(in c02Input) {
		if strings.Contains(in.Shape, "msg-filter") {
			for _, c := range in.Ctrs {
				if _, has := c.Labels["msg"]; has {
					return // a filter on msg over a container whose Docker label is named msg: which value it sees is stated nowhere
				}
			}
		}
		idx++
		if !r.Mine(idx) || r.Stop() {
			return
		}
		c02Check(r, in)
		if len(in.Ctrs) >= 2 {
			r.NonTrivial()
		}
		if r.WantSample() && len(in.Matchers) == 2 && len(in.Ctrs) == 3 {
			r.Sample(in)
		}
	}
	pairStep := 7
	if r.Thorough() {
		pairStep = 1
	}
	for ii, inv := range invs {
		// single matchers x every time range x shapes
		for _, m := range ms {
			for _, st := range times {
				for _, en := range times {
					if en < st {
						continue
					}
					one(c02Input{Ctrs: inv, Matchers: []c02Matcher{m}, Shape: "log", StartNS: st, EndNS: en})
				}
			}
			for _, sh := range []string{"instant-log", "count", "count-offset", "instant-count"} {
				one(c02Input{Ctrs: inv, Matchers: []c02Matcher{m}, Shape: sh, StartNS: 5 * sec, EndNS: 7*sec + 500000000})
			}
		}
		// the step of a range query and a configured lookback of an instant query
		all := c02Matcher{Label: "container", Op: "=~", Value: ".*"}
		for _, step := range []int{7000, 2500, 86000} {
			for _, te := range [][2]int64{{1 * sec, 2999999999}, {1500000000, 9 * sec}, {3 * sec, 100*sec + 1}} {
				one(c02Input{Ctrs: inv, Matchers: []c02Matcher{all}, Shape: "log", StartNS: te[0], EndNS: te[1], StepMS: step})
				one(c02Input{Ctrs: inv, Matchers: []c02Matcher{all}, Shape: "count", StartNS: te[0], EndNS: te[1], StepMS: step})
			}
		}
		for _, te := range [][2]int64{{100 * sec, 200 * sec}, {1500000000, 9 * sec}} {
			one(c02Input{Ctrs: inv, Matchers: []c02Matcher{all}, Shape: "log-nostep", StartNS: te[0], EndNS: te[1]})
		}
		for _, sh := range []string{"stages:logfmt", "stages:logfmt-list", "stages:json", "stages:label_format", "stages:msg-filter", "stages:msg-filter-2"} {
			one(c02Input{Ctrs: inv, Matchers: []c02Matcher{all}, Shape: sh, StartNS: 0, EndNS: 3 * sec})
			one(c02Input{Ctrs: inv, Matchers: []c02Matcher{{Label: "container_state", Op: "=", Value: "running"}}, Shape: sh, StartNS: 0, EndNS: 3 * sec})
		}
		// dotted names in the selector (an Engine that allows them): absent labels, whatever Docker labels sanitise to
		for _, l := range []string{"k.d", "container.role", "com.x"} {
			for _, op := range []string{"=", "!=", "=~", "!~"} {
				for _, v := range []string{"v", "", ".*", ".+", "|v"} {
					one(c02Input{Ctrs: inv, Matchers: []c02Matcher{{Label: l, Op: op, Value: v}}, Shape: "log", StartNS: 0, EndNS: 3 * sec, Dots: true})
				}
			}
			one(c02Input{Ctrs: inv, Matchers: []c02Matcher{{Label: l, Op: "!=", Value: "v"}, {Label: "container_state", Op: "=", Value: "running"}}, Shape: "log", StartNS: 0, EndNS: 3 * sec, Dots: true})
		}
		// windows that lie ahead of the evaluator's clock (year 2200) are asked for like any other
		for _, sh := range []string{"log", "count", "count-offset", "instant-count", "instant-log"} {
			one(c02Input{Ctrs: inv, Matchers: []c02Matcher{all}, Shape: sh, StartNS: 7258118400 * sec, EndNS: 7258118402*sec + 500000000})
		}
		for _, lim := range []int{1, 2, 3, 100} {
			one(c02Input{Ctrs: inv, Matchers: []c02Matcher{all}, Shape: "log", StartNS: 0, EndNS: 3 * sec, Limit: lim})
			one(c02Input{Ctrs: inv, Matchers: []c02Matcher{all}, Shape: "log-nostep", StartNS: 0, EndNS: 3 * sec, Limit: lim})
			one(c02Input{Ctrs: inv, Matchers: []c02Matcher{all}, Shape: "stages:msg-filter", StartNS: 0, EndNS: 3 * sec, Limit: lim})
		}
		for _, lb := range []int{60, 5} {
			one(c02Input{Ctrs: inv, Matchers: []c02Matcher{all}, Shape: "instant-log", StartNS: 100 * sec, EndNS: 100 * sec, LookbackS: lb})
		}
		// a Querier that has answered a query before: the inventory changed in between (states flip, names rotate,
		// labels move to the next container), and the earlier selector matched a subset
		if len(inv) >= 2 {
			before := make([]c02Ctr, len(inv))
			for i := range inv {
				j := (i + 1) % len(inv)
				before[i] = c02Ctr{Name: inv[j].Name, Names: inv[j].Names, Image: inv[i].Image, State: map[string]string{"running": "exited", "exited": "running"}[inv[i].State], Labels: inv[j].Labels}
			}
			// (the last two earlier selectors differ from selectors used below in the blanks inside a string only)
			for _, bm := range [][]c02Matcher{{all}, {{Label: "container_state", Op: "=", Value: "running"}}, {{Label: "container", Op: "=~", Value: "a.*"}},
				{{Label: "container_command", Op: "=", Value: "run  running"}}, {{Label: "container_status", Op: "=~", Value: "Up   .*"}}} {
				for _, m := range []c02Matcher{all, {Label: "container_state", Op: "=", Value: "running"}, {Label: "container", Op: "!=", Value: "a"}, {Label: "k", Op: "=", Value: "v"}, {Label: "container_name", Op: "=~", Value: "a|b"},
					{Label: "container_command", Op: "=", Value: "run running"}, {Label: "container_status", Op: "=~", Value: "Up .*"}, {Label: "__zone", Op: "=", Value: "z"}} {
					one(c02Input{Ctrs: inv, Matchers: []c02Matcher{m}, Shape: "log", StartNS: 0, EndNS: 3 * sec, Before: before, BeforeMatchers: bm})
				}
			}
		}
		// pairs of matchers (quick: a 1/7 lattice of the 2nd matcher, offset per inventory so that all pairs are met across inventories)
		for a := range ms {
			for b := (a + ii) % pairStep; b < len(ms); b += pairStep {
				one(c02Input{Ctrs: inv, Matchers: []c02Matcher{ms[a], ms[b]}, Shape: "log", StartNS: 0, EndNS: 3 * sec})
			}
		}
		r.State(vkit.J(inv))
	}
	one(c02Input{Ctrs: invs[0], Matchers: nil, Shape: "log", StartNS: 0, EndNS: 3 * sec})
	r.Note("bounds", fmt.Sprintf("%d container variants (3 names x 2 images x 2 states x 8 Docker-label sets) in %d inventories; %d single matchers (8 labels x 4 ops x 15 values incl. explicitly anchored alternations and case-insensitive literals) x 10 time ranges x 5 query shapes; matcher pairs on a 1/%d lattice; 15 (earlier selector, selector) pairs per inventory on a Querier that answered a query over a different inventory before", len(vars), len(invs), len(ms), pairStep))
}

func c02Replay(r *vkit.Run, v vkit.Violation) *vkit.Violation {
	var in c02Input
	if err := vkit.DecodeInput(v, &in); err != nil {
		r.HarnessError("bad input: %v", err)
	}
	return vkit.ReplayOne(r, func() { c02Prelude(); c02Check(r, in) })
}
