//go:build verif

package main

import "github.com/tdakkota/docker-logql/internal/zzverif/vkit"

func main() {
	vkit.Main(map[string]vkit.Check{
		"C04": {Run: c04Run, Replay: c04Replay},
		"C03": {Run: c03Run, Replay: c03Replay},
		"C02": {Run: c02Run, Replay: c02Replay},
		"C20": {Run: c20Run, Replay: c20Replay},
		"C14": {Run: c14Run, Replay: c14Replay},
	})
}
