//go:build verif

package main

import "github.com/tdakkota/docker-logql/internal/zzverif/vkit"

func main() {
	vkit.Main(map[string]vkit.Check{
		"C04": {Run: c04Run, Replay: c04Replay},
		"C03": {Run: c03Run, Replay: c03Replay},
	})
}
