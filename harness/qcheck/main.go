//go:build verif

package main

import "github.com/tdakkota/docker-logql/internal/zzverif/vkit"

func main() {
	vkit.Main(map[string]vkit.Check{
		"C01": {Run: c01Run, Replay: c01Replay},
		"C19": {Run: c19Run, Replay: c19Replay},
		"C08": {Run: c08Run, Replay: c08Replay},
		"C07": {Run: c07Run, Replay: c07Replay},
		"C06": {Run: c06Run, Replay: c06Replay},
	})
}
