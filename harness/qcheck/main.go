//go:build verif

package main

import "github.com/tdakkota/docker-logql/internal/zzverif/vkit"

func main() {
	vkit.Main(map[string]vkit.Check{
		"C01": {Run: c01Run, Replay: c01Replay},
	})
}
