//go:build verif

package main

import (
	"fmt"
	"regexp"
	"strconv"
	"strings"

	"github.com/tdakkota/docker-logql/internal/logql/logqlengine"
	"github.com/tdakkota/docker-logql/internal/zzverif/mockq"
	"github.com/tdakkota/docker-logql/internal/zzverif/refmodel"
	"github.com/tdakkota/docker-logql/internal/zzverif/vkit"
)

// c06Input is one (line, pre-existing labels, stage) case. Kind tells how the line was made.
type c06Input struct {
	Line   string `json:"line"`
	Pre    bool   `json:"pre"` // the record already carries labels a="old", b="old"
	Stage  string `json:"stage"`
	Kind   string `json:"kind"` // wellformed, prefix, garbage-before, garbage-after, nomatch
	Parser string `json:"parser"`
}

func c06Stage(parser, name string) refmodel.Stage {
	switch parser {
	case "json":
		switch name {
		case "json":
			return &refmodel.JSONStage{}
		case "json a":
			return &refmodel.JSONStage{Labels: []string{"a"}}
		case "json a,b":
			return &refmodel.JSONStage{Labels: []string{"a", "b"}}
		case `json x="a"`:
			return &refmodel.JSONStage{Exprs: [][2]string{{"x", "a"}}}
		case `json x="b.c"`:
			return &refmodel.JSONStage{Exprs: [][2]string{{"x", "b.c"}}}
		case `json x="b[0]"`:
			return &refmodel.JSONStage{Exprs: [][2]string{{"x", "b[0]"}}}
		case `json x="[\"a.b\"]"`:
			return &refmodel.JSONStage{Exprs: [][2]string{{"x", `["a.b"]`}}}
		case `json a, x="b"`:
			return &refmodel.JSONStage{Labels: []string{"a"}, Exprs: [][2]string{{"x", "b"}}}
		}
		if strings.HasPrefix(name, "json k") { // json k<n>, a
			return &refmodel.JSONStage{Labels: strings.Split(strings.TrimPrefix(name, "json "), ", ")}
		}
		// generic: json l1="path1", l2="path2"
		if ms := c06ExprRe.FindAllStringSubmatch(strings.TrimPrefix(name, "json "), -1); len(ms) > 0 {
			st := &refmodel.JSONStage{}
			for _, m := range ms {
				path, err := strconv.Unquote(`"` + m[2] + `"`)
				if err != nil {
					panic("bad stage " + name)
				}
				st.Exprs = append(st.Exprs, [2]string{m[1], path})
			}
			return st
		}
	case "logfmt":
		switch name {
		case "logfmt":
			return &refmodel.LogfmtStage{}
		case "logfmt a":
			return &refmodel.LogfmtStage{Labels: []string{"a"}}
		case `logfmt x="a"`:
			return &refmodel.LogfmtStage{Exprs: [][2]string{{"x", "a"}}}
		case `logfmt a, x="b"`:
			return &refmodel.LogfmtStage{Labels: []string{"a"}, Exprs: [][2]string{{"x", "b"}}}
		}
	case "regexp":
		return &refmodel.RegexpStage{Pattern: name}
	case "pattern":
		return &refmodel.PatternStage{Pattern: name}
	case "unpack":
		return &refmodel.UnpackStage{}
	}
	panic("unknown stage " + parser + "/" + name)
}

// c06NameRe: label names (the engine allows dots inside them).
var c06NameRe = regexp.MustCompile(`^[A-Za-z_][A-Za-z0-9_.]*$`)

var c06ExprRe = regexp.MustCompile(`(\w+)="((?:[^"\\]|\\.)*)"`)

// ---- nested documents and the path expressions that address them -------------------------------

// c06Tree is a JSON value whose leaves are distinct strings, so that an expression resolving to a wrong
// element is seen.
type c06Tree struct {
	kind string // leaf, arr, obj
	kids []*c06Tree
	keys []string
}

// c06Trees(d): all trees of depth <= d: a leaf, arrays of 1..maxArr subtrees, objects {k:T} and {k:T,m:T}.
func c06Trees(d, maxArr int, sub []*c06Tree) []*c06Tree {
	out := []*c06Tree{{kind: "leaf"}}
	if d == 0 {
		return out
	}
	if sub == nil {
		sub = c06Trees(d-1, maxArr, nil)
	}
	var arr func(kids []*c06Tree)
	arr = func(kids []*c06Tree) {
		if len(kids) > 0 {
			out = append(out, &c06Tree{kind: "arr", kids: append([]*c06Tree(nil), kids...)})
		}
		if len(kids) == maxArr {
			return
		}
		for _, k := range sub {
			arr(append(kids, k))
		}
	}
	arr(nil)
	for _, a := range sub {
		out = append(out, &c06Tree{kind: "obj", kids: []*c06Tree{a}, keys: []string{"k"}})
		for _, b := range sub {
			out = append(out, &c06Tree{kind: "obj", kids: []*c06Tree{a, b}, keys: []string{"k", "m"}})
		}
	}
	return out
}

func (t *c06Tree) leaves() int {
	if t.kind == "leaf" {
		return 1
	}
	n := 0
	for _, k := range t.kids {
		n += k.leaves()
	}
	return n
}

// render writes the tree; every leaf gets the next distinct value and its path is recorded.
func (t *c06Tree) render(sb *strings.Builder, path string, leafPaths, innerPaths *[]string) {
	switch t.kind {
	case "leaf":
		fmt.Fprintf(sb, `"s%d"`, len(*leafPaths))
		*leafPaths = append(*leafPaths, path)
	case "arr":
		*innerPaths = append(*innerPaths, path)
		sb.WriteByte('[')
		for i, k := range t.kids {
			if i > 0 {
				sb.WriteByte(',')
			}
			k.render(sb, fmt.Sprintf("%s[%d]", path, i), leafPaths, innerPaths)
		}
		sb.WriteByte(']')
		*innerPaths = append(*innerPaths, fmt.Sprintf("%s[%d]", path, len(t.kids))) // one past the end: resolves to nothing
	case "obj":
		*innerPaths = append(*innerPaths, path)
		sb.WriteByte('{')
		for i, k := range t.kids {
			if i > 0 {
				sb.WriteByte(',')
			}
			fmt.Fprintf(sb, "%q:", t.keys[i])
			k.render(sb, path+"."+t.keys[i], leafPaths, innerPaths)
		}
		sb.WriteByte('}')
		*innerPaths = append(*innerPaths, path+".zz")
	}
}

// c06SeqInput: two records through one stage instance. The second record must come out exactly as it does when it is
// evaluated alone (nothing remembered from the first, whatever state the first left the stage in).
type c06SeqInput struct {
	First  string `json:"first"`
	Second string `json:"second"`
	Stage  string `json:"stage"` // full stage text
	// Pre: both records belong to one stream with the labels a="old", b="old" (fields of the first record that are
	// named like them override them for that record only)
	Pre bool `json:"pre,omitempty"`
}

func c06SeqCheck(r *vkit.Run, in c06SeqInput) bool {
	r.Begin("C06/sequence", in)
	q := "{} | " + in.Stage
	var labels []mockq.KV
	if in.Pre {
		labels = []mockq.KV{{K: "a", V: "old"}, {K: "b", V: "old"}}
	}
	both := evalLog([]mockq.Rec{{TS: 1 * sec, Line: in.First, Labels: labels}, {TS: 2 * sec, Line: in.Second, Labels: labels}}, logqlengine.QuerierCapabilities{}, q, -1)
	alone := evalLog([]mockq.Rec{{TS: 2 * sec, Line: in.Second, Labels: labels}}, logqlengine.QuerierCapabilities{}, q, -1)
	r.Eval()
	r.Eval()
	r.Step(3)
	fail := func(why string) {
		r.Fail("C06/sequence", in, nil, both.brief(), alone.brief(), fmt.Sprintf("%s over %q then %q: %s", q, in.First, in.Second, why), "")
	}
	if both.Panic != "" || both.Err != "" || alone.Panic != "" || alone.Err != "" {
		fail("evaluation failed: " + fmt.Sprint(both.brief(), alone.brief()))
		return false
	}
	if len(alone.Entries) != 1 || len(both.Entries) != 2 {
		fail(fmt.Sprintf("%d and %d entries returned for 2 and 1 records: a parser stage never removes a line", len(both.Entries), len(alone.Entries)))
		return false
	}
	var second *outEntry
	for i := range both.Entries {
		if both.Entries[i].TS == 2*sec {
			second = &both.Entries[i]
		}
	}
	if second == nil {
		fail("the second record is missing")
		return false
	}
	a := alone.Entries[0]
	if second.Line != a.Line || second.Labels.Key() != a.Labels.Key() {
		fail(fmt.Sprintf("the second record comes out as %q %s, alone it comes out as %q %s", second.Line, second.Labels.Key(), a.Line, a.Labels.Key()))
		return false
	}
	return true
}

func c06Check(r *vkit.Run, in c06Input) bool {
	r.Begin("C06", in)
	st := c06Stage(in.Parser, in.Stage)
	rec := mockq.Rec{TS: 7 * sec, Line: in.Line}
	if in.Pre {
		rec.Labels = []mockq.KV{{K: "a", V: "old"}, {K: "b", V: "old"}}
	}
	q := &refmodel.LogQuery{Stages: []refmodel.Stage{st}}
	res := evalLog([]mockq.Rec{rec}, logqlengine.QuerierCapabilities{}, q.Text(), -1)
	r.Eval()
	r.Step(2)
	fail := func(why string, exp any) {
		r.Fail("C06", in, nil, res.brief(), exp, fmt.Sprintf("%s on line %q: %s", q.Text(), in.Line, why), "")
	}
	if res.Panic != "" || res.Err != "" {
		fail(fmt.Sprint(res.brief()), nil)
		return false
	}
	if len(res.Entries) != 1 {
		fail(fmt.Sprintf("%d entries returned: a parser stage never removes (or duplicates) a line", len(res.Entries)), 1)
		return false
	}
	g := res.Entries[0]
	if g.TS != rec.TS {
		fail("timestamp changed", rec.TS)
		return false
	}
	initial := refmodel.Labels(mockq.InitialLabels(rec))
	_, hasErr := g.Labels[refmodel.ErrorLabel]
	wellformed := in.Kind == "wellformed" || in.Kind == "nomatch"
	// the line
	wantLine := in.Line
	if in.Parser == "unpack" && wellformed {
		e := &refmodel.Entry{TS: rec.TS, Line: in.Line, Labels: refmodel.Labels{}}
		st.Apply(e, &refmodel.QueryState{})
		wantLine = e.Line
	}
	if g.Line != wantLine {
		fail(fmt.Sprintf("line is %q, expected %q", g.Line, wantLine), wantLine)
		return false
	}
	if !wellformed {
		switch in.Kind {
		case "garbage-after":
			// lenient decoders may stop at the end of the value: only "kept, unchanged" is required
			return true
		case "badkey":
			// a well-formed document with a key that is no label name: flagged, or exposed under some valid name -- never
			// exposed under a name that is no label name
			if hasErr {
				return true
			}
			for k := range g.Labels {
				if !c06NameRe.MatchString(k) {
					fail(fmt.Sprintf("label %q exposed: not a label name, and the line is not flagged", k), "valid names or __error__")
					return false
				}
			}
			return true
		}
		if hasErr {
			return true
		}
		// field-list forms: acceptable when every requested field was extracted before the damage
		if js, ok := st.(*refmodel.JSONStage); ok && (len(js.Labels) > 0 || len(js.Exprs) > 0) {
			// requested fields must then come from the line, i.e. differ from the pre-existing "old" or be absent in the prefix
			fail("malformed line was neither flagged with __error__ nor fully extracted", "__error__ present")
			return false
		}
		fail("malformed line is not flagged with __error__", "__error__ present")
		return false
	}
	// well-formed: exact label map
	var exp refmodel.LabelExpect
	switch s := st.(type) {
	case *refmodel.JSONStage:
		exp = s.Expect(in.Line)
	default:
		e := &refmodel.Entry{TS: rec.TS, Line: in.Line, Labels: refmodel.Labels{}}
		st.Apply(e, &refmodel.QueryState{})
		exp = refmodel.LabelExpect{Exact: e.Labels, Flex: map[string]refmodel.JSONField{}}
		if _, bad := e.Labels[refmodel.ErrorLabel]; bad {
			r.HarnessError("generator wrote a line the reference cannot read: %q", in.Line)
		}
	}
	if hasErr {
		fail("well-formed line flagged with __error__="+g.Labels[refmodel.ErrorLabel]+": "+g.Labels[refmodel.ErrorDetails], "no __error__")
		return false
	}
	wantKeys := map[string]bool{}
	for k, v := range initial {
		if _, over := exp.Exact[k]; over {
			continue
		}
		if _, over := exp.Flex[k]; over {
			continue
		}
		wantKeys[k] = true
		if g.Labels[k] != v {
			fail(fmt.Sprintf("pre-existing label %s=%q became %q", k, v, g.Labels[k]), v)
			return false
		}
	}
	for k, v := range exp.Exact {
		wantKeys[k] = true
		gv, ok := g.Labels[k]
		if !ok || gv != v {
			fail(fmt.Sprintf("field %s: label is %q (present=%v), expected exactly %q", k, gv, ok, v), v)
			return false
		}
	}
	for k, f := range exp.Flex {
		gv, ok := g.Labels[k]
		switch {
		case f.Opaque:
			// nested value: the rendering is not compared, but the field must be exposed
			wantKeys[k] = true
			if !ok {
				fail(fmt.Sprintf("field %s holds a nested value and is not exposed as a label at all", k), "label present")
				return false
			}
		case f.Absent:
			wantKeys[k] = true
			if ok && gv != "" {
				// a pre-existing label may legitimately survive a null field
				if iv, had := initial[k]; !(had && iv == gv) {
					fail(fmt.Sprintf("null field %s exposed as %q", k, gv), "absent or empty")
					return false
				}
			}
		default:
			wantKeys[k] = true
			match := false
			for _, a := range f.Accept {
				if ok && gv == a {
					match = true
				}
			}
			if !match {
				fail(fmt.Sprintf("field %s: label is %q (present=%v), expected one of %q", k, gv, ok, f.Accept), f.Accept)
				return false
			}
		}
	}
	for k := range g.Labels {
		if !wantKeys[k] {
			fail(fmt.Sprintf("unexpected label %s=%q", k, g.Labels[k]), nil)
			return false
		}
	}
	return len(exp.Exact)+len(exp.Flex) > 0
}

// ---- generators -----------------------------------------------------------------------------

type c06Val struct {
	json string // JSON text of the value
}

var c06JSONVals = []string{`"v"`, `""`, `"q\"x"`, `"two\nlines"`, `"é"`, `5`, `-3`, `1.5`, `1.50`, `true`, `false`, `null`, `{"c":"d"}`, `[1,"x"]`, `{"c":7,"e":[true]}`, `1e3`, `[null,1]`, `{"c":[{"d":null}]}`, `9007199254740993`, `-9223372036854775808`}
var c06JSONKeys = []string{"a", "b", "a.b", "x y"}

func c06Scalar(v string) bool {
	return v != "null" && !strings.HasPrefix(v, "{") && !strings.HasPrefix(v, "[")
}

func c06JSONDocs(maxFields int) []string {
	var docs []string
	var rec func(parts []string)
	rec = func(parts []string) {
		docs = append(docs, "{"+strings.Join(parts, ",")+"}")
		if len(parts) > 0 {
			docs = append(docs, "{ "+strings.Join(parts, " , ")+" }\n")
		}
		if len(parts) == 1 {
			docs = append(docs, " \n\t{"+strings.Join(parts, ",")+"}")
		}
		if len(parts) == maxFields {
			return
		}
		for _, k := range c06JSONKeys {
			for vi, v := range c06JSONVals {
				if len(parts) >= 1 && vi%3 != len(parts)%3 && k != "b" {
					continue // deeper levels: a third of the values (all of them for key b, which the path expressions address)
				}
				// duplicate keys are only defined ("last wins") between non-null scalars
				dup := false
				for _, p := range parts {
					if strings.HasPrefix(p, strconv.Quote(k)+":") {
						pv := strings.TrimPrefix(p, strconv.Quote(k)+":")
						if !c06Scalar(pv) || !c06Scalar(v) {
							dup = true
						}
					}
				}
				if dup {
					continue
				}
				rec(append(append([]string(nil), parts...), strconv.Quote(k)+":"+v))
			}
		}
	}
	rec(nil)
	return docs
}

func c06Run(r *vkit.Run) {
	idx := 0
	visit := func(in c06Input) {
		idx++
		if !r.Mine(idx) || r.Stop() {
			return
		}
		if c06Check(r, in) {
			r.NonTrivial()
		}
		if in.Kind == "wellformed" && !in.Pre {
			r.State(in.Parser + in.Stage + in.Line)
		}
		if r.WantSample() && in.Kind == "wellformed" && in.Pre && len(in.Line) > 20 {
			r.Sample(in)
		}
	}
	// JSON
	jsonStages := []string{"json", "json a", "json a,b", `json x="a"`, `json x="b.c"`, `json x="b[0]"`, `json x="[\"a.b\"]"`, `json a, x="b"`}
	maxFields := 2
	if r.Thorough() {
		maxFields = 3
	}
	docs := c06JSONDocs(maxFields)
	for di, d := range docs {
		for _, st := range jsonStages {
			for _, pre := range []bool{false, true} {
				visit(c06Input{Line: d, Pre: pre, Stage: st, Kind: "wellformed", Parser: "json"})
			}
		}
		if strings.HasSuffix(d, "}") && (r.Thorough() || di%7 == 0) && len(d) < 60 {
			for p := 0; p < len(d); p++ {
				for _, st := range []string{"json", "json a", `json x="b.c"`} {
					visit(c06Input{Line: d[:p], Pre: p%2 == 0, Stage: st, Kind: "prefix", Parser: "json"})
				}
			}
			visit(c06Input{Line: "x" + d, Stage: "json", Kind: "garbage-before", Parser: "json"})
			visit(c06Input{Line: d + "x", Stage: "json", Kind: "garbage-after", Parser: "json"})
			visit(c06Input{Line: d + "x", Stage: "json a", Kind: "garbage-after", Parser: "json"})
		}
	}
	// JSON path expressions over nested documents: every leaf path alone, every ordered pair of leaf paths in
	// one stage, every path to an inner node (opaque) and one path past the end of every array / object
	depth2 := c06Trees(2, 3, nil)
	trees := depth2
	if r.Thorough() {
		var small []*c06Tree
		for _, t := range depth2 {
			if t.leaves() <= 3 {
				small = append(small, t)
			}
		}
		trees = append(trees, c06Trees(3, 2, small)...)
	}
	nPathCases := 0
	for _, t := range trees {
		var sb strings.Builder
		var leafPaths, innerPaths []string
		sb.WriteString(`{"a":"v","b":`)
		t.render(&sb, "b", &leafPaths, &innerPaths)
		sb.WriteString(`,"c":["t"]}`)
		doc := sb.String()
		stage := func(exprs ...string) string {
			var parts []string
			for i, e := range exprs {
				parts = append(parts, fmt.Sprintf("%s=%s", []string{"x", "y"}[i], strconv.Quote(e)))
			}
			return "json " + strings.Join(parts, ", ")
		}
		for _, p := range leafPaths {
			nPathCases++
			visit(c06Input{Line: doc, Pre: nPathCases%2 == 0, Stage: stage(p), Kind: "wellformed", Parser: "json"})
		}
		for _, p := range innerPaths {
			nPathCases++
			visit(c06Input{Line: doc, Stage: stage(p), Kind: "wellformed", Parser: "json"})
		}
		if len(leafPaths) <= 6 {
			for _, p := range leafPaths {
				for _, q := range leafPaths {
					if p != q {
						nPathCases++
						visit(c06Input{Line: doc, Stage: stage(p, q), Kind: "wellformed", Parser: "json"})
					}
				}
				nPathCases++
				visit(c06Input{Line: doc, Stage: stage(p, "c[0]"), Kind: "wellformed", Parser: "json"})
			}
		}
	}
	r.Note("json_path_cases", fmt.Sprint(nPathCases))
	// sequences: a first record that leaves the stage in an odd state (malformed at some nesting depth, cut, empty,
	// not of the format) followed by a well-formed one: the second comes out as it does alone
	firsts := []string{`{"b":{"c":`, `{"b":[{"c":`, `{"a":{"b":{"c":1`, `{"b":[1,`, `{"b":[[1,2],[`, `{"a":"v","b":{"c":"w"}`, `{"a":"old","b":{"c":"old"},"x":`, "not json", "", `{`, `{"a":`,
		`a="unterminated`, `a=1 b="x`, `{"_entry":"e","k":`, `[1,2`, `{"b":{"c":"keep"}}`, `a=first b=first`, `GET first`, `{"a":"first","b":"first"}`, `{"_entry":"e","a":"first"}`}
	seconds := []string{`{"a":"v","b":{"c":"w"}}`, `{"b":["s0",["s1"],"s2"]}`, `{"a":"v"}`, `{"b":{"c":{"d":"deep"}},"a":1}`, `a=v b=w`, `b=only`, `GET /x`, `{"_entry":"e2","k":"v"}`, `{}`, `x`}
	seqStages := []string{`json`, `json a`, `json a, b`, `json x="b.c"`, `json x="b[1][0]"`, `json x="b[2]"`, `json x="b.c.d", y="a"`, `json y="a", x="b.c"`, `logfmt`, `logfmt a`, `logfmt x="b"`,
		`regexp "(?P<m>\\w+) (?P<p>\\S+)"`, `pattern "<m> <p>"`, `unpack`}
	for _, st := range seqStages {
		for _, f := range firsts {
			for _, sd := range seconds {
				idx++
				if !r.Mine(idx) || r.Stop() {
					continue
				}
				if c06SeqCheck(r, c06SeqInput{First: f, Second: sd, Stage: st}) {
					r.NonTrivial()
				}
				c06SeqCheck(r, c06SeqInput{First: f, Second: sd, Stage: st, Pre: true})
				r.State("seq" + st + f + sd)
			}
		}
	}
	// wide documents: more fields than any small-map / small-slice threshold (9, 17, 65, 300 fields)
	for _, nf := range []int{9, 17, 65, 300} {
		var jp, lp []string
		for k := 0; k < nf; k++ {
			jp = append(jp, fmt.Sprintf("%q:%q", fmt.Sprintf("k%d", k), fmt.Sprintf("v%d", k)))
			lp = append(lp, fmt.Sprintf("k%d=v%d", k, k))
		}
		jdoc := "{" + strings.Join(jp, ",") + `,"a":"last","b":{"c":"w"},"2xx.count":"n","x.y-z":"d"}`
		ldoc := strings.Join(lp, " ") + " a=last b=w"
		for _, st := range []string{"json", "json a", `json x="b.c"`, fmt.Sprintf("json k%d, a", nf-1)} {
			visit(c06Input{Line: jdoc, Pre: true, Stage: st, Kind: "wellformed", Parser: "json"})
		}
		for _, st := range []string{"logfmt", "logfmt a", `logfmt x="a"`} {
			visit(c06Input{Line: ldoc, Pre: true, Stage: st, Kind: "wellformed", Parser: "logfmt"})
		}
		visit(c06Input{Line: jdoc[:len(jdoc)-1], Pre: true, Stage: "json", Kind: "prefix", Parser: "json"})
	}
	// logfmt: records of <= 3 pairs over keys {a,b,k_1} x values
	lfVals := []string{"v", "", `"with space"`, `"q\"x"`, "5", `"é"`, `"a=b"`, "x.y/z"}
	var lfDocs []string
	var lrec func(parts []string)
	lrec = func(parts []string) {
		lfDocs = append(lfDocs, strings.Join(parts, " "))
		if len(parts) >= 1 {
			lfDocs = append(lfDocs, " "+strings.Join(parts, "  ")+" ")
		}
		if len(parts) >= 2 {
			lfDocs = append(lfDocs, strings.Join(parts, "\n"), strings.Join(parts, "\t")+"\n") // a record may span several physical lines
		}
		if len(parts) == 3 {
			return
		}
		for _, k := range []string{"a", "b", "k_1"} {
			for vi, v := range lfVals {
				if len(parts) >= 1 && vi%2 != len(parts)%2 {
					continue
				}
				lrec(append(append([]string(nil), parts...), k+"="+v))
			}
			if len(parts) < 2 {
				lrec(append(append([]string(nil), parts...), k)) // bare key
			}
		}
	}
	lrec(nil)
	for _, d := range lfDocs {
		for _, st := range []string{"logfmt", "logfmt a", `logfmt x="a"`, `logfmt a, x="b"`} {
			for _, pre := range []bool{false, true} {
				visit(c06Input{Line: d, Pre: pre, Stage: st, Kind: "wellformed", Parser: "logfmt"})
			}
		}
	}
	for _, bad := range []string{`a="x`, `a=v b="unterminated`, `a"b=c`, `a=v "q"=1`, `=v`, `a=v =w`} {
		for _, st := range []string{"logfmt", "logfmt a"} {
			visit(c06Input{Line: bad, Stage: st, Kind: "prefix", Parser: "logfmt"})
		}
	}
	// regexp: named captures over delimiter-separated words
	words := []string{"GET", "x1", "é", ""}
	// patterns that begin with a literal, matched away from the start of the line
	for _, pat := range []string{`x1 (?P<b>\w*)`, `ET (?P<z>\S+)`, `=(?P<a>\w)`} {
		for _, line := range []string{"GET x1 é", "x1 GET", "k=v x1 w", "no match here", "  x1 y", "GET ET tail"} {
			for _, pre := range []bool{false, true} {
				visit(c06Input{Line: line, Pre: pre, Stage: pat, Kind: "wellformed", Parser: "regexp"})
			}
		}
	}
	for _, pat := range []string{`(?P<a>\w+) (?P<b>\w+)`, `^(?P<a>[^ ]*) (?P<z>[^ ]*)$`, `(?P<a>\w+)`, `(\w+) (?P<b>\w+)`, `^(\w+)( (?P<b>\w+))?`, `(?P<a>G)|(?P<b>x)`, `(\w)(\w)(?P<b>\w)`} {
		for _, w1 := range words {
			for _, w2 := range words {
				for _, pre := range []bool{false, true} {
					visit(c06Input{Line: w1 + " " + w2, Pre: pre, Stage: pat, Kind: "wellformed", Parser: "regexp"})
				}
			}
		}
		visit(c06Input{Line: "!!!", Pre: true, Stage: pat, Kind: "nomatch", Parser: "regexp"})
	}
	// a leading or trailing `.*` is not redundant when groups follow or precede it: it decides where they match
	for _, pat := range []string{`.*/(?P<a>[^/ ]+)`, `.*(?P<b>\\d)`, `(?P<a>\\w+).*`, `.*=(?P<z>\\w*).*`, `.* (?P<a>\\S+) .*`} {
		for _, line := range []string{"GET /static/img/logo.png 200", "a=1 b=22 c=333", "x", "/a/b /c/d", "k=v"} {
			for _, pre := range []bool{false, true} {
				visit(c06Input{Line: line, Pre: pre, Stage: pat, Kind: "wellformed", Parser: "regexp"})
			}
		}
	}
	// expressions whose overall match depends on preference order (leftmost-first, not leftmost-longest): an alternation
	// whose earlier branch is a prefix of a later one, and lazy quantifiers, in tail position
	for _, pat := range []string{`level=(?P<a>warn|warning)`, `id=(?P<b>\d+?)`, `(?P<a>x|xy)(?P<z>y?)`, `(?P<a>\w*?)`} {
		for _, line := range []string{"level=warning id=12345", "xy level=warn", "id=7", "xyy"} {
			for _, pre := range []bool{false, true} {
				visit(c06Input{Line: line, Pre: pre, Stage: pat, Kind: "wellformed", Parser: "regexp"})
			}
		}
	}
	// pattern: lines constructed from capture values free of the next delimiter
	vals := []string{"v", "", "two words", "é", "5", "a-b", "x -y", "- ", "a > b", "x\n", "y\r\n"}
	for _, v1 := range vals {
		for _, v2 := range vals {
			for _, pre := range []bool{false, true} {
				if !strings.Contains(v1, " ") {
					visit(c06Input{Line: v1 + " " + v2, Pre: pre, Stage: `<a> <b>`, Kind: "wellformed", Parser: "pattern"})
					visit(c06Input{Line: v1 + " " + v2, Pre: pre, Stage: `<_> <b>`, Kind: "wellformed", Parser: "pattern"})
				}
				visit(c06Input{Line: "[" + v1 + `] "` + v2 + `"`, Pre: pre, Stage: `[<a>] "<b>"`, Kind: "wellformed", Parser: "pattern"})
				visit(c06Input{Line: v1 + "=" + v2 + ";", Pre: pre, Stage: `<a>=<z>;`, Kind: "wellformed", Parser: "pattern"})
				// literals of several bytes whose first byte also occurs inside the captured value
				visit(c06Input{Line: v1 + " - " + v2, Pre: pre, Stage: `<a> - <b>`, Kind: "wellformed", Parser: "pattern"})
				visit(c06Input{Line: "x " + v1 + " -> " + v2 + " ->", Pre: pre, Stage: `x <a> -> <b> ->`, Kind: "wellformed", Parser: "pattern"})
				// literals that are not ASCII
				visit(c06Input{Line: v1 + " → " + v2, Pre: pre, Stage: `<a> → <b>`, Kind: "wellformed", Parser: "pattern"})
				visit(c06Input{Line: "é" + v1 + "世" + v2 + "é", Pre: pre, Stage: `é<a>世<b>é`, Kind: "wellformed", Parser: "pattern"})
				// angle brackets around something that is no capture name are literal text
				visit(c06Input{Line: "<é> " + v1 + " <1> " + v2, Pre: pre, Stage: `<é> <a> <1> <b>`, Kind: "wellformed", Parser: "pattern"})
			}
		}
	}
	// unpack
	for _, entry := range []string{`"line"`, `""`, `"two\nlines"`, `"{\"inner\":1}"`, ""} {
		for _, extra := range []string{"", `"k":"v"`, `"k":"v","a":"new"`, `"n":5`, `"o":{"x":1},"k":"v"`, `"b":null`, `"k8s.pod":"p","k":"v"`, `"a.b":"dot"`} {
			var parts []string
			if extra != "" {
				parts = append(parts, extra)
			}
			if entry != "" {
				parts = append(parts, `"_entry":`+entry)
			}
			d := "{" + strings.Join(parts, ",") + "}"
			for _, pre := range []bool{false, true} {
				visit(c06Input{Line: d, Pre: pre, Stage: "unpack", Kind: "wellformed", Parser: "unpack"})
			}
			for p := 0; p < len(d); p++ {
				visit(c06Input{Line: d[:p], Pre: true, Stage: "unpack", Kind: "prefix", Parser: "unpack"})
			}
		}
	}
	visit(c06Input{Line: "not json", Stage: "unpack", Kind: "prefix", Parser: "unpack"})
	// the empty key, and paths that address a position of the other kind (an index into an object, a key into an array)
	for _, c := range [][2]string{{`{"a":{"":"v"}}`, `json x="a[0]"`}, {`{"a":["v"]}`, `json x="a[\"\"]"`}, {`{"a":{"":"v"}}`, `json x="a[\"\"]"`}, {`{"":"v","a":"w"}`, `json x="[\"\"]"`},
		{`{"a":{"0":"v"}}`, `json x="a[0]"`}, {`{"a":["v"]}`, `json x="a[\"0\"]"`}, {`{"a":{"":{"":"deep"}}}`, `json x="a[0][0]"`}, {`[{"":"v"}]`, `json x="[0][0]"`}} {
		for _, pre := range []bool{false, true} {
			visit(c06Input{Line: c[0], Pre: pre, Stage: c[1], Kind: "wellformed", Parser: "json"})
		}
	}
	// packed keys that are no label names (no _entry: the line stays what it is either way)
	for _, d := range []string{`{"café":"au lait","k":"v"}`, `{"k":"v","x y":"z"}`, `{"0a":"z"}`, `{"é":"z","a":"new"}`, `{"a-b":"z"}`, `{"":"z"}`, `{"世":"z"}`} {
		for _, pre := range []bool{false, true} {
			visit(c06Input{Line: d, Pre: pre, Stage: "unpack", Kind: "badkey", Parser: "unpack"})
		}
	}
	// field names of 63, 64, 65 and 200 bytes, requested by name
	for _, n := range []int{63, 64, 65, 200} {
		key := "k" + strings.Repeat("x", n-1)
		for _, pre := range []bool{false, true} {
			visit(c06Input{Line: `{"` + key + `":"v","a":"w"}`, Pre: pre, Stage: "json " + key, Kind: "wellformed", Parser: "json"})
			visit(c06Input{Line: `{"a":"w","` + key + `":"v"}`, Pre: pre, Stage: "json " + key + ", a", Kind: "wellformed", Parser: "json"})
			visit(c06Input{Line: key + "=v a=w", Pre: pre, Stage: "logfmt", Kind: "wellformed", Parser: "logfmt"})
		}
	}
	r.Note("bounds", fmt.Sprintf("JSON: %d documents (<=%d fields over keys {a,b,a.b,'x y'} x 20 values incl. escapes, numbers (also integers beyond 2^53), booleans, null, nested; duplicate keys; two whitespace styles) x 8 json forms x with/without pre-existing labels, every strict prefix of a subset; path expressions: every nested document of depth <= 2 (arrays of <= 3, objects of <= 2; thorough: depth 3 over the small subtrees) with distinct leaves x every leaf path, every ordered pair of leaf paths in one stage, every inner path and every path one past the end; logfmt: %d records x 4 forms + 7 malformed; regexp: 10 patterns x up to 16 lines; pattern: 8 patterns (two with non-ASCII literals) x 81 value pairs; unpack: 30 packed entries and all their strict prefixes; sequences: 20 first records (malformed at several depths, cut, empty, other format) x 10 second records x 14 stages, the second record compared with its evaluation alone", len(docs), maxFields, len(lfDocs)))
}

func c06Replay(r *vkit.Run, v vkit.Violation) *vkit.Violation {
	if v.Check == "C06/sequence" {
		var in c06SeqInput
		if err := vkit.DecodeInput(v, &in); err != nil {
			r.HarnessError("bad input: %v", err)
		}
		return vkit.ReplayOne(r, func() { c06SeqCheck(r, in) })
	}
	var in c06Input
	if err := vkit.DecodeInput(v, &in); err != nil {
		r.HarnessError("bad input: %v", err)
	}
	return vkit.ReplayOne(r, func() { c06Check(r, in) })
}
