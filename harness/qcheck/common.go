//go:build verif

// Command qcheck hosts the log-query checks (C01, C06, C07, C08, C19): bounded exhaustive enumeration of
// data sets, queries and storage capability splits evaluated by the real engine over a mock storage.
package main

import (
	"context"
	"fmt"
	"sort"
	"strings"
	"time"

	"go.opentelemetry.io/otel/trace/noop"

	"github.com/tdakkota/docker-logql/internal/logql"
	"github.com/tdakkota/docker-logql/internal/logql/logqlengine"
	"github.com/tdakkota/docker-logql/internal/lokiapi"
	"github.com/tdakkota/docker-logql/internal/otelstorage"
	"github.com/tdakkota/docker-logql/internal/zzverif/mockq"
	"github.com/tdakkota/docker-logql/internal/zzverif/refmodel"
)

const sec = int64(1e9)

// outEntry is one returned entry with the labels of the stream it sits in.
type outEntry struct {
	TS     int64           `json:"ts"`
	Line   string          `json:"line"`
	Labels refmodel.Labels `json:"labels"`
	Stream int             `json:"stream"`
}

type logResult struct {
	Entries []outEntry `json:"entries"`
	Streams int        `json:"streams"`
	Err     string     `json:"err,omitempty"`
	Panic   string     `json:"panic,omitempty"`
	// StreamKeys are the canonical label sets of the streams, in returned order.
	StreamKeys []string `json:"-"`
}

func (r logResult) brief() any {
	if r.Panic != "" {
		return "panic: " + r.Panic
	}
	if r.Err != "" {
		return "error: " + r.Err
	}
	var out []string
	for _, e := range r.Entries {
		out = append(out, fmt.Sprintf("%d %q %s", e.TS/sec, e.Line, e.Labels.Key()))
	}
	sort.Strings(out) // stream order is not part of any oracle
	return out
}

// caps builds QuerierCapabilities from two op lists.
func caps(labelOps, lineOps []logql.BinOp) logqlengine.QuerierCapabilities {
	var c logqlengine.QuerierCapabilities
	c.Label.Add(labelOps...)
	c.Line.Add(lineOps...)
	return c
}

func evalLogOn(eng *logqlengine.Engine, query string, startNS, endNS int64, limit int) (res logResult) {
	return evalLogStep(eng, query, startNS, endNS, time.Second, limit)
}

// evalLogStep: as evalLogOn with the step of the request (0 = none given: still a range query when start != end).
func evalLogStep(eng *logqlengine.Engine, query string, startNS, endNS int64, step time.Duration, limit int) (res logResult) {
	defer func() {
		if p := recover(); p != nil {
			res.Panic = fmt.Sprint(p)
		}
	}()
	data, err := eng.Eval(context.Background(), query, logqlengine.EvalParams{
		Start: otelstorage.Timestamp(startNS), End: otelstorage.Timestamp(endNS), Step: step, Limit: limit,
	})
	if err != nil {
		res.Err = err.Error()
		return res
	}
	if data.Type != lokiapi.StreamsResultQueryResponseData {
		res.Err = "not a streams result: " + string(data.Type)
		return res
	}
	res.Streams = len(data.StreamsResult.Result)
	for si, st := range data.StreamsResult.Result {
		labels := refmodel.Labels{}
		for k, v := range st.Stream.Value {
			labels[k] = v
		}
		res.StreamKeys = append(res.StreamKeys, labels.Key())
		for _, e := range st.Values {
			res.Entries = append(res.Entries, outEntry{TS: int64(e.T), Line: e.V, Labels: labels, Stream: si})
		}
	}
	return res
}

// evalLogDir: as evalLogOn with the direction of the request.
func evalLogDir(eng *logqlengine.Engine, query string, startNS, endNS int64, limit int, dir string) (res logResult) {
	defer func() {
		if p := recover(); p != nil {
			res.Panic = fmt.Sprint(p)
		}
	}()
	data, err := eng.Eval(context.Background(), query, logqlengine.EvalParams{
		Start: otelstorage.Timestamp(startNS), End: otelstorage.Timestamp(endNS), Step: time.Second, Limit: limit, Direction: dir,
	})
	if err != nil {
		res.Err = err.Error()
		return res
	}
	if data.Type != lokiapi.StreamsResultQueryResponseData {
		res.Err = "not a streams result: " + string(data.Type)
		return res
	}
	res.Streams = len(data.StreamsResult.Result)
	for si, st := range data.StreamsResult.Result {
		labels := refmodel.Labels{}
		for k, v := range st.Stream.Value {
			labels[k] = v
		}
		res.StreamKeys = append(res.StreamKeys, labels.Key())
		for _, e := range st.Values {
			res.Entries = append(res.Entries, outEntry{TS: int64(e.T), Line: e.V, Labels: labels, Stream: si})
		}
	}
	return res
}

func newEngine(q logqlengine.Querier) *logqlengine.Engine {
	return logqlengine.NewEngine(q, logqlengine.Options{TracerProvider: noop.NewTracerProvider()})
}

// evalLog runs the real engine on a fresh mock storage.
func evalLog(data []mockq.Rec, c logqlengine.QuerierCapabilities, query string, limit int) logResult {
	q := mockq.New(data)
	q.Caps = c
	return evalLogOn(newEngine(q), query, 0, 1<<50, limit)
}

// multiset of (ts, line)
func entryMultiset(es []outEntry) map[string]int {
	m := map[string]int{}
	for _, e := range es {
		m[refmodel.EntryKey(e.TS, e.Line)]++
	}
	return m
}

func refMultiset(es []refmodel.OutEntry) map[string]int {
	m := map[string]int{}
	for _, e := range es {
		m[refmodel.EntryKey(e.TS, e.Line)]++
	}
	return m
}

func diffMultiset(got, want map[string]int) string {
	var keys []string
	for k := range got {
		keys = append(keys, k)
	}
	for k := range want {
		if _, ok := got[k]; !ok {
			keys = append(keys, k)
		}
	}
	sort.Strings(keys)
	var d []string
	for _, k := range keys {
		if got[k] != want[k] {
			d = append(d, fmt.Sprintf("%s: returned %d times, expected %d", k, got[k], want[k]))
		}
	}
	if len(d) > 4 {
		d = append(d[:4], fmt.Sprintf("... and %d more", len(d)-4))
	}
	return strings.Join(d, "; ")
}

var allStringOps = []logql.BinOp{logql.OpEq, logql.OpNotEq, logql.OpRe, logql.OpNotRe}

func opOf(s string) logql.BinOp {
	switch s {
	case "=", "|=":
		return logql.OpEq
	case "!=":
		return logql.OpNotEq
	case "=~", "|~":
		return logql.OpRe
	case "!~":
		return logql.OpNotRe
	}
	panic("op " + s)
}

// capSplits enumerates every storage capability configuration that can matter for q: the engine asks
// Supports(op) only for operators occurring in the selector and in non-IP line filters, so the 2^8 raw
// configurations collapse onto subsets of those.
func capSplits(q *refmodel.LogQuery) []logqlengine.QuerierCapabilities {
	var lops, fops []logql.BinOp
	seenL, seenF := map[logql.BinOp]bool{}, map[logql.BinOp]bool{}
	for _, m := range q.Sel {
		if op := opOf(m.Op); !seenL[op] {
			seenL[op] = true
			lops = append(lops, op)
		}
	}
	for _, s := range q.Stages {
		if f, ok := s.(*refmodel.LineFilter); ok && !f.IP {
			if op := opOf(f.Op); !seenF[op] {
				seenF[op] = true
				fops = append(fops, op)
			}
		}
	}
	var out []logqlengine.QuerierCapabilities
	for lm := 0; lm < 1<<len(lops); lm++ {
		for fm := 0; fm < 1<<len(fops); fm++ {
			var c logqlengine.QuerierCapabilities
			for i, op := range lops {
				if lm&(1<<i) != 0 {
					c.Label.Add(op)
				}
			}
			for i, op := range fops {
				if fm&(1<<i) != 0 {
					c.Line.Add(op)
				}
			}
			out = append(out, c)
		}
	}
	// That collapse leans on what the current engine consults. Two full configurations are added whatever the query
	// holds, so that an engine which starts to offload something else (label filters, say) meets a storage that
	// accepts it: every label operator (what the Docker querier advertises), and every label and line operator.
	var dockerLike, full logqlengine.QuerierCapabilities
	for _, op := range []logql.BinOp{logql.OpEq, logql.OpNotEq, logql.OpRe, logql.OpNotRe} {
		dockerLike.Label.Add(op)
		full.Label.Add(op)
		full.Line.Add(op)
	}
	extras := []logqlengine.QuerierCapabilities{dockerLike, full}
	if len(q.Sel) > 0 {
		// a storage that evaluates the positive operators only, and one that evaluates the negated ones only,
		// whatever the selector holds (what is not declared is left to the engine)
		var pos, neg logqlengine.QuerierCapabilities
		pos.Label.Add(logql.OpEq, logql.OpRe)
		neg.Label.Add(logql.OpNotEq, logql.OpNotRe)
		extras = append(extras, pos, neg)
	}
	for _, extra := range extras {
		dup := false
		for _, c := range out {
			if c == extra {
				dup = true
			}
		}
		if !dup {
			out = append(out, extra)
		}
	}
	return out
}
