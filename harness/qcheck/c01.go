//go:build verif

package main

import (
	"fmt"
	"strings"

	"github.com/tdakkota/docker-logql/internal/logql"
	"github.com/tdakkota/docker-logql/internal/logql/logqlengine"
	"github.com/tdakkota/docker-logql/internal/zzverif/mockq"
	"github.com/tdakkota/docker-logql/internal/zzverif/refmodel"
	"github.com/tdakkota/docker-logql/internal/zzverif/vkit"
)

// ---- alphabets ------------------------------------------------------------------------------

var c01Lines = []string{
	// a record whose fields are named like the labels of its own stream (later records of that stream must not inherit them)
	`{"app":"z","env":"q","y":"a"}`, `app=z env=q y=b`,
	"", "a", "ab", "ba", "a b", "A", "é", "\xff", "b",
	`x=5 y=a`, `x=7 y=b d=1s sz=1KB ip=10.0.0.1`, `x=abc`, `y=a`, `d=1h30m x=5.5`, `sz=2MiB y=b`, `ip=10.0.0.9 x=10`, `ip=notanip d=soon sz=big`, `x=-1 y="a b"`,
	`x=a y=a`, `x=b y=a`, `{"x":true,"y":"a"}`, `{"x":false,"d":true,"sz":false,"ip":true}`,
	`{"x":5,"y":"a"}`, `{"x":"7","y":"b","d":"1s"}`, `{"x":"abc"}`, `{"y":"a"}`, `{"x":5.5,"sz":"1KB","ip":"10.0.0.1"}`, `{"x":6,"y":"ab","ip":"10.0.0.77"}`,
	"\x1b[31ma\x1b[0m", `{"_entry":"ab","y":"a"}`, `{"_entry":"A","y":"b"}`, `{"_entry":"x=5 y=a","b":"\u0061"}`,
	"from 10.0.0.1 ok", "10.0.0.1 and 10.0.0.9", "edge 10.0.0.5", "edge 10.0.0.255 10.0.1.0", `ip=10.0.0.5 x=6`, `ip=10.0.0.255`, "peer 192.168.1.7", "v6 ::1 end", "no ip here", "10.0.0.9",
	// values that parse as numbers but do not order: every ordered comparison with NaN is false, != is true
	`x=NaN y=a`, `x=+Inf y=b`, `{"x":"NaN","y":"b"}`,
	// numbers whose text is not the canonical rendering of their value: a comparison must not rewrite the label
	`x=007 y=a`, `x=5.0 y=b`, `x=1e1 y=a`,
	// the same malformed value in consecutive records (anything remembered from the previous record shows here)
	`ip=notanip d=soon sz=big y=b`, `sz=big d=soon`, `sz= d= x=`,
	// invalid UTF-8 other than the needle \xff: byte-wise and rune-wise search disagree on these
	"\xfeb", "a\xc3", "\xef\xbf\xbd",
	// an escape sequence in the middle of a needle of the alphabet (seen only after decolorize)
	"a\x1b[31mb", "\x1b[1ma\x1b[0m b",
	// IPv6 addresses that start with a hex letter
	"peer fe80::1 up", "mc ff02::2", "fd00::5 and 10.0.0.1", "cafe::1",
	// long lines: the needle only at the very end, beyond 1 KiB; a long logfmt record
	strings.Repeat("x", 1100) + "ab", strings.Repeat("pad=1 ", 180) + "x=7 y=b",
	// number texts that another number syntax reads differently (octal-looking, base prefix): decimal 10, and not a number
	`x=010 y=a`, `x=0x10 y=b`,
	// labels whose JSON value is an array (with elements that are needles of the alphabet) or an empty array
	`{"tags":["a","b"],"y":"a"}`, `{"tags":[],"y":"b"}`, `{"tags":["a"]}`,
	// values with a line break in them (the dot of a label expression does not match it), and fields that are present but empty
	"a\nb", `{"y":"a\nb","x":1}`, `y= x=1`, `{"y":"","x":"","d":"","sz":""}`,
	// integers where a size or a duration is expected
	`{"sz":-5,"d":-5,"y":"a"}`, `{"sz":2048,"d":90,"y":"b"}`,
}

// c01Records: every line once, unique timestamps, stream labels cycling through app in {x,y} x env in {p,absent}.
func c01Records() []mockq.Rec {
	var out []mockq.Rec
	for i, l := range c01Lines {
		labels := []mockq.KV{{K: "app", V: []string{"x", "y"}[i%2]}}
		if (i/2)%2 == 0 {
			labels = append(labels, mockq.KV{K: "env", V: "p"})
		}
		out = append(out, mockq.Rec{TS: int64(i+1) * sec, Line: l, Labels: labels})
	}
	return out
}

// c01Small: the sub-alphabet for order-dependent behaviour (distinct, limit loop); timestamps with ties.
var c01Small = []mockq.Rec{
	{Line: `x=5 y=a`, Labels: []mockq.KV{{K: "app", V: "x"}}},
	{Line: `x=7 y=a`, Labels: []mockq.KV{{K: "app", V: "y"}}},
	{Line: `x=5 y=b`, Labels: []mockq.KV{{K: "app", V: "x"}}},
	{Line: `y=b`, Labels: []mockq.KV{{K: "app", V: "x"}}},
	{Line: `{"x":5,"y":"a"}`, Labels: []mockq.KV{{K: "app", V: "y"}}},
	{Line: `a`, Labels: []mockq.KV{{K: "app", V: "x"}}},
	{Line: `x=a y=a`, Labels: []mockq.KV{{K: "app", V: "y"}}},
	{Line: `x=b y=a`, Labels: []mockq.KV{{K: "app", V: "x"}}},
}

func c01Triples() [][]mockq.Rec {
	var out [][]mockq.Rec
	n := len(c01Small)
	for a := 0; a < n; a++ {
		for b := 0; b < n; b++ {
			for c := 0; c < n; c++ {
				recs := []mockq.Rec{c01Small[a], c01Small[b], c01Small[c]}
				// timestamps: a<b=c when (a+b+c) even (a tie), strictly increasing otherwise
				recs[0].TS, recs[1].TS, recs[2].TS = 1*sec, 2*sec, 3*sec
				if (a+b+c)%2 == 0 {
					recs[2].TS = 2 * sec
				}
				out = append(out, recs)
			}
		}
	}
	return out
}

func lf(op, v string) refmodel.Stage   { return &refmodel.LineFilter{Op: op, Value: v} }
func lfip(op, v string) refmodel.Stage { return &refmodel.LineFilter{Op: op, Value: v, IP: true} }
func ps(l, op, v string) refmodel.Pred { return &refmodel.PStr{Label: l, Op: op, Value: v} }
func pn(l, op, kind, lit string) refmodel.Pred {
	return &refmodel.PNum{Label: l, Op: op, Kind: kind, Lit: lit}
}
func pip(l, op, v string) refmodel.Pred               { return &refmodel.PIP{Label: l, Op: op, Value: v} }
func pb(sep string, l, r refmodel.Pred) refmodel.Pred { return &refmodel.PBin{Sep: sep, L: l, R: r} }
func lab(p refmodel.Pred) refmodel.Stage              { return &refmodel.LabelFilter{P: p} }

func c01Stages() []refmodel.Stage {
	var a []refmodel.Stage
	for _, op := range []string{"|=", "!="} {
		for _, v := range []string{"", "a", "b", "ab", "\xff", "a."} {
			a = append(a, lf(op, v))
		}
	}
	for _, op := range []string{"|~", "!~"} {
		for _, v := range []string{"", "a", "a.", "^a$", "(?i)A", "a|b"} {
			a = append(a, lf(op, v))
		}
	}
	for _, op := range []string{"|=", "!="} {
		for _, v := range []string{"10.0.0.1", "10.0.0.1-10.0.0.5", "10.0.0.0/24", "::1", "fe80::/10", "80::1", "10.0.0.9/24"} {
			a = append(a, lfip(op, v))
		}
	}
	a = append(a, &refmodel.JSONStage{}, &refmodel.LogfmtStage{}, &refmodel.JSONStage{Labels: []string{"x", "y"}}, &refmodel.LogfmtStage{Labels: []string{"x", "y"}})
	for _, p := range []refmodel.Pred{
		ps("app", "=", "x"), ps("app", "!=", "x"), ps("app", "=~", "x|y"), ps("env", "!~", "p"), ps("y", "=", "a"), ps("y", "!=", "a"), ps("missing", "=", ""), ps("missing", "!=", ""),
		pn("x", "==", "number", "5"), pn("x", "!=", "number", "5"), pn("x", ">", "number", "5"), pn("x", ">=", "number", "5"), pn("x", "<", "number", "5"), pn("x", "<=", "number", "5"), pn("x", ">", "number", "5.5"), pn("x", "<", "number", "0"),
		pn("d", ">", "duration", "1s"), pn("d", ">=", "duration", "1s"), pn("d", "==", "duration", "1s"), pn("d", "<", "duration", "1h"), pn("d", "<=", "duration", "90m"), pn("d", "!=", "duration", "1s"),
		pn("sz", ">", "bytes", "1KB"), pn("sz", ">=", "bytes", "1KB"), pn("sz", "==", "bytes", "1KB"), pn("sz", "<", "bytes", "2MiB"), pn("sz", "<=", "bytes", "1KB"), pn("sz", "!=", "bytes", "1KB"),
		pip("ip", "==", "10.0.0.1"), pip("ip", "!=", "10.0.0.1"), pip("ip", "==", "10.0.0.0/24"),
		pb("or", pn("x", ">", "number", "5"), ps("y", "=", "a")),
		pb("and", pn("x", ">", "number", "5"), ps("y", "=", "b")),
		pb(",", pn("x", ">", "number", "5"), ps("y", "=", "b")),
		pb(" ", pn("x", ">", "number", "5"), ps("y", "=", "b")),
		pb("and", pb("or", pn("x", ">", "number", "5"), ps("y", "=", "a")), ps("app", "=", "x")),
		pb("or", pn("x", ">", "number", "5"), pb("and", ps("y", "=", "a"), ps("app", "=", "x"))),
		pb("or", ps("y", "=", "a"), ps("y", "=", "b")),
		pb("or", pn("x", "<", "number", "5"), pn("x", ">", "number", "6")),
		pb("and", pn("x", ">", "number", "5"), ps("x", "=", "007")),
		pb("and", pn("x", ">=", "number", "5"), ps("x", "=~", "5.0|1e1")),
		ps("x", "=", "007"),
		// predicates over the stream's own labels (what a storage could be asked to evaluate)
		pb("or", ps("app", "=", "x"), ps("env", "=", "p")),
		pb("or", ps("app", "=", "x"), ps("app", "=", "y")),
		pb("and", ps("app", "=", "x"), ps("env", "!=", "p")),
		pb("or", ps("app", "=~", "x"), ps("msg", "=", "a")),
		// what a conversion failure of an earlier filter leaves behind
		ps("__error__", "=", ""), ps("__error__", "!=", ""),
		pb("or", pn("d", ">", "duration", "1s"), ps("y", "=", "a")),
		pb("or", ps("y", "=", "a"), pn("sz", ">", "bytes", "1KB")),
		pip("ip", "==", "10.0.0.9/24"), pip("ip", "!=", "10.0.0.200/24"),
		pn("x", ">=", "number", "9"), pn("x", "==", "number", "8"),
	} {
		a = append(a, lab(p))
	}
	// stages that rewrite the line: filters after them must see the rewritten line, whatever is offloaded
	a = append(a,
		&refmodel.LineFormat{T: refmodel.Template{{Label: "app"}, {Lit: " "}, {Line: true}}},
		&refmodel.LineFormat{T: refmodel.Template{{Lit: "b"}}},
		&refmodel.Decolorize{},
		&refmodel.UnpackStage{},
	)
	a = append(a, &refmodel.Distinct{Labels: []string{"x", "y"}})
	a = append(a, &refmodel.Distinct{Labels: []string{"y"}}, &refmodel.Distinct{Labels: []string{"y", "x"}}, &refmodel.Distinct{Labels: []string{"app"}})
	return a
}

func c01Selectors() [][]refmodel.Matcher {
	out := [][]refmodel.Matcher{
		nil,
		{{Label: "app", Op: "=", Value: "x"}},
		{{Label: "app", Op: "=~", Value: "x|y"}, {Label: "env", Op: "!=", Value: "q"}},
		{{Label: "env", Op: "!~", Value: "p"}, {Label: "msg", Op: "=~", Value: ".+"}},
	}
	var singles []refmodel.Matcher
	for _, l := range []string{"app", "env", "msg", "missing"} {
		for _, op := range []string{"=", "!=", "=~", "!~"} {
			for _, v := range []string{"x", "y", "", "x|y", ".*", ".+", "x.*", "a", "^a|b$"} {
				singles = append(singles, refmodel.Matcher{Label: l, Op: op, Value: v})
			}
		}
	}
	for _, m := range singles {
		out = append(out, []refmodel.Matcher{m})
	}
	// pairs on a lattice: every single matcher meets 9 others, all 16 operator pairs occur
	for i, m := range singles {
		for k := 1; k <= 9; k++ {
			out = append(out, []refmodel.Matcher{m, singles[(i+k*13)%len(singles)]})
		}
	}
	return out
}

// ---- input ----------------------------------------------------------------------------------

type c01Input struct {
	Data   string `json:"data"`   // "all" or "triple:<n>"
	Sel    int    `json:"sel"`    // index into the selector alphabet
	Stages []int  `json:"stages"` // indexes into the stage alphabet
	Query  string `json:"query"`  // text, for the reader
}

var (
	c01A    = c01Stages()
	c01Sels = c01Selectors()
	c01All  = c01Records()
	c01Tri  = c01Triples()
)

func c01Query(in c01Input) (*refmodel.LogQuery, []mockq.Rec) {
	q := &refmodel.LogQuery{Sel: c01Sels[in.Sel]}
	for _, s := range in.Stages {
		q.Stages = append(q.Stages, c01A[s])
	}
	data := c01All
	if in.Data != "all" {
		var n int
		fmt.Sscanf(in.Data, "triple:%d", &n)
		data = c01Tri[n]
	}
	return q, data
}

func capName(c logqlengine.QuerierCapabilities) string {
	s := "label["
	for _, op := range allStringOps {
		if c.Label.Supports(op) {
			s += op.String() + " "
		}
	}
	s += "] line["
	for _, op := range allStringOps {
		if c.Line.Supports(op) {
			s += op.String() + " "
		}
	}
	return s + "]"
}

// c01Check evaluates one (data, query) under every relevant capability split.
func c01Check(r *vkit.Run, in c01Input, reuse bool) (kept, dropped int) {
	r.Begin("C01", in)
	q, data := c01Query(in)
	in.Query = q.Text()
	want := refMultiset(refmodel.EvalLog(q, data, -1))
	for _, n := range want {
		kept += n
	}
	dropped = len(data) - kept
	var first map[string]int
	var firstCaps logqlengine.QuerierCapabilities
	for _, c := range capSplits(q) {
		res := evalLog(data, c, in.Query, -1)
		r.Eval()
		r.Step(1 + len(q.Stages))
		if res.Panic != "" || res.Err != "" {
			r.Fail("C01", in, nil, res.brief(), want, fmt.Sprintf("%s failed with storage capabilities %s: %v", in.Query, capName(c), res.brief()), "")
			return
		}
		got := entryMultiset(res.Entries)
		if d := diffMultiset(got, want); d != "" {
			r.Fail("C01", in, nil, map[string]any{"caps": capName(c), "entries": res.brief()}, want,
				fmt.Sprintf("%s with storage capabilities %s: %s", in.Query, capName(c), d), c01Classify(q, data, got))
			return
		}
		if first == nil {
			first, firstCaps = got, c
		} else if d := diffMultiset(got, first); d != "" {
			r.Fail("C01/offload-independence", in, nil, map[string]any{"caps": capName(c)}, map[string]any{"caps": capName(firstCaps)},
				"result depends on which operators the storage evaluates: "+d, "")
			return
		}
	}
	if reuse {
		// non-initial state: the same Engine evaluates the query a second time
		// (under a storage that evaluates every selector operator, and under one that evaluates = and != only, so that the
		// selector is split between storage and engine at every evaluation)
		for _, c := range []logqlengine.QuerierCapabilities{caps(allStringOps, nil), caps([]logql.BinOp{logql.OpEq, logql.OpNotEq}, nil), caps([]logql.BinOp{logql.OpRe, logql.OpNotRe}, []logql.BinOp{logql.OpEq})} {
			mq := mockq.New(data)
			mq.Caps = c
			eng := newEngine(mq)
			_ = evalLogOn(eng, in.Query, 0, 1<<40, -1)
			res := evalLogOn(eng, in.Query, 0, 1<<40, -1)
			r.Eval()
			if d := diffMultiset(entryMultiset(res.Entries), want); d != "" || res.Err != "" || res.Panic != "" {
				r.Fail("C01/engine-reuse", in, nil, map[string]any{"caps": capName(c), "entries": res.brief()}, want, "second evaluation on the same Engine (storage capabilities "+capName(c)+") differs: "+d+res.Err+res.Panic, "")
				break
			}
		}
	}
	return kept, dropped
}

// c01Classify: defects of the pinned tree were repaired; no class is attributed.
func c01Classify(*refmodel.LogQuery, []mockq.Rec, map[string]int) string { return "" }

func c01Run(r *vkit.Run) {
	idx := 0
	visit := func(in c01Input, reuse bool) {
		idx++
		if !r.Mine(idx) || r.Stop() {
			return
		}
		k, d := c01Check(r, in, reuse)
		r.State(fmt.Sprint(in.Data, in.Sel, in.Stages))
		if k > 0 && d > 0 {
			r.NonTrivial()
		}
		if r.WantSample() && len(in.Stages) == 2 && k > 0 && d > 0 {
			q, _ := c01Query(in)
			r.Sample(map[string]any{"query": q.Text(), "data": in.Data, "kept": k, "dropped": d, "capability_splits": len(capSplits(q))})
		}
	}
	// (i) selectors x a small pipeline set, all capability splits
	probe := [][]int{{}, {1}, {13}, {36}, {40, 44}}
	for si := range c01Sels {
		for _, st := range probe {
			visit(c01Input{Data: "all", Sel: si, Stages: st}, len(st) == 0 && len(c01Sels[si]) >= 2)
		}
	}
	r.GlobalState("selectors")
	// (ii) every pipeline of length 1 and 2 (thorough: 3 on a lattice) under three selectors
	sels := []int{0, 1, 2, 3}
	for _, si := range sels {
		for a := range c01A {
			visit(c01Input{Data: "all", Sel: si, Stages: []int{a}}, true)
		}
	}
	for a := range c01A {
		for b := range c01A {
			visit(c01Input{Data: "all", Sel: 0, Stages: []int{a, b}}, false)
			visit(c01Input{Data: "all", Sel: sels[1+(a+b)%3], Stages: []int{a, b}}, false)
		}
	}
	// a parser followed by every ordered pair of label filters (what the first filter leaves in __error__ is seen by the second)
	var labelFilters []int
	for i, st := range c01A {
		if _, ok := st.(*refmodel.LabelFilter); ok {
			labelFilters = append(labelFilters, i)
		}
	}
	var plainParsers []int
	for i, st := range c01A {
		switch x := st.(type) {
		case *refmodel.JSONStage:
			if len(x.Labels) == 0 && len(x.Exprs) == 0 {
				plainParsers = append(plainParsers, i)
			}
		case *refmodel.LogfmtStage:
			if len(x.Labels) == 0 && len(x.Exprs) == 0 {
				plainParsers = append(plainParsers, i)
			}
		}
	}
	if len(plainParsers) != 2 {
		r.HarnessError("expected the two plain parser stages, found %v", plainParsers)
	}
	for _, p := range plainParsers {
		for _, a := range labelFilters {
			for _, b := range labelFilters {
				visit(c01Input{Data: "all", Sel: 0, Stages: []int{p, a, b}}, false)
			}
		}
	}
	r.GlobalState("pipelines<=2")
	{
		lat := 5
		if r.Thorough() {
			lat = 1
		}
		for a := range c01A {
			for b := range c01A {
				for c := (a + b) % lat; c < len(c01A); c += lat {
					visit(c01Input{Data: "all", Sel: sels[(a+b+c)%4], Stages: []int{a, b, c}}, false)
				}
			}
		}
		r.GlobalState("pipelines=3")
	}
	// (iii) order-dependent behaviour: every ordered triple of the small alphabet under pipelines with distinct
	dist := []int{len(c01A) - 4, len(c01A) - 3, len(c01A) - 2, len(c01A) - 1}
	parsers := plainParsers // | json and | logfmt: distinct needs the labels they extract
	filters := []int{1, 2, 13, 40, 44, 48, 67}
	for n := range c01Tri {
		for _, d := range dist {
			for _, p := range parsers {
				visit(c01Input{Data: fmt.Sprintf("triple:%d", n), Sel: 0, Stages: []int{p, d}}, false)
				for _, f := range filters {
					if !r.Thorough() && (n+f)%3 != 0 {
						continue
					}
					visit(c01Input{Data: fmt.Sprintf("triple:%d", n), Sel: 0, Stages: []int{p, d, f}}, false)
					visit(c01Input{Data: fmt.Sprintf("triple:%d", n), Sel: 0, Stages: []int{p, f, d}}, false)
				}
			}
		}
	}
	r.GlobalState("ordered-triples")
	r.Note("bounds", fmt.Sprintf("%d records (plain, logfmt, JSON and IP lines incl. empty, non-UTF-8, unparsable and absent fields) x %d selectors x probe pipelines; all %d^1 and %d^2 pipelines over a %d-stage alphabet (quick: a fifth of all triples, thorough: all); 216 ordered record triples (with timestamp ties) x distinct pipelines; every query under every storage capability split that can matter (2^#selector-ops x 2^#line-filter-ops)", len(c01All), len(c01Sels), len(c01A), len(c01A), len(c01A)))
}

func c01Replay(r *vkit.Run, v vkit.Violation) *vkit.Violation {
	var in c01Input
	if err := vkit.DecodeInput(v, &in); err != nil {
		r.HarnessError("bad input: %v", err)
	}
	return vkit.ReplayOne(r, func() { c01Check(r, in, true) })
}

var _ = logql.OpEq
