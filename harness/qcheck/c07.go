//go:build verif

package main

import (
	"fmt"
	"strconv"
	"strings"

	"github.com/tdakkota/docker-logql/internal/logql/logqlengine"
	"github.com/tdakkota/docker-logql/internal/zzverif/mockq"
	"github.com/tdakkota/docker-logql/internal/zzverif/refmodel"
	"github.com/tdakkota/docker-logql/internal/zzverif/vkit"
)

type c07Input struct {
	Stages []int  `json:"stages"`
	Text   string `json:"text,omitempty"`
	// JSON: the stage list is preceded by `| json` and runs over the JSON lines only: the labels a, b, c then carry
	// numbers, booleans and strings as the parser produced them, not plain string attributes.
	JSON bool `json:"json,omitempty"`
	// Raw: every string of the query text is written as a raw string (between backquotes, every byte standing for
	// itself: line breaks, carriage returns, tabs) where its content allows it.
	Raw bool `json:"raw,omitempty"`
}

// rawQuoted rewrites the interpreted string literals of a query text into raw ones.
func rawQuoted(text string) string {
	var sb strings.Builder
	for i := 0; i < len(text); {
		if text[i] == '"' {
			if q, err := strconv.QuotedPrefix(text[i:]); err == nil {
				if v, err := strconv.Unquote(q); err == nil && !strings.Contains(v, "`") {
					sb.WriteString("`" + v + "`")
					i += len(q)
					continue
				}
			}
		}
		sb.WriteByte(text[i])
		i++
	}
	return sb.String()
}

// c07JSONData: labels a, b, c as JSON values of several types (values spelled so that every rendering agrees).
var c07JSONData = func() []mockq.Rec {
	var out []mockq.Rec
	for i, l := range []string{`{"a":1,"b":2,"c":"x"}`, `{"a":1}`, `{"a":true,"c":"x"}`, `{"b":-3,"c":"y"}`, `{"a":"1","b":"2"}`, `{"c":false}`, `{}`, `{"a":7654321.5,"b":0.00001,"c":"x"}`} {
		out = append(out, mockq.Rec{TS: int64(i+1) * sec, Line: l})
	}
	return out
}()

func tl(s string) refmodel.TPart { return refmodel.TPart{Lit: s} }
func tv(l string) refmodel.TPart { return refmodel.TPart{Label: l} }
func al(right bool, n int, l string) refmodel.TPart {
	return refmodel.TPart{Align: &refmodel.AlignPart{Right: right, N: n, Label: l}}
}

// c07StageInfo: a stage plus what it reads/writes (to keep renames and templates of one stage disjoint, §4).
type c07StageInfo struct {
	s         refmodel.Stage
	mayFail   bool // can flag __error__
	isKeep    bool
	isDropErr bool
}

func c07Stages() []c07StageInfo {
	lfmt := func(items ...refmodel.LFItem) refmodel.Stage { return &refmodel.LabelFormat{Items: items} }
	ren := func(dst, src string) refmodel.LFItem { return refmodel.LFItem{Dst: dst, Src: src} }
	tpl := func(dst string, parts ...refmodel.TPart) refmodel.LFItem {
		return refmodel.LFItem{Dst: dst, T: refmodel.Template(parts)}
	}
	dk := func(l string) refmodel.DKItem { return refmodel.DKItem{Label: l} }
	dm := func(l, op, v string) refmodel.DKItem { return refmodel.DKItem{Label: l, Op: op, Value: v} }
	return []c07StageInfo{
		{s: lfmt(ren("d", "a"))},
		{s: lfmt(ren("a", "b"))},
		{s: lfmt(ren("d", "missing"))},
		{s: lfmt(ren("d", "a"), ren("e", "b"))},
		{s: lfmt(ren("b", "a"), ren("a", "c"))},
		{s: lfmt(ren("d", "a"), ren("a", "b"))},
		{s: lfmt(tpl("d", tv("a"), tl("-"), tv("b")))},
		{s: lfmt(tpl("d", refmodel.TPart{Line: true}))},
		{s: lfmt(tpl("a", tl("new")))},
		{s: lfmt(tpl("d", refmodel.TPart{Upper: "c"}), tpl("e", tv("missing"), tl("!")))},
		{s: lfmt(ren("d", "a"), tpl("e", tv("c")))},
		{s: lfmt(tpl("d", refmodel.TPart{Fail: true})), mayFail: true},
		{s: &refmodel.LineFormat{T: refmodel.Template{tv("a"), tl("|"), {Line: true}}}},
		{s: &refmodel.LineFormat{T: refmodel.Template{{TSNanos: true}}}},
		{s: &refmodel.LineFormat{T: refmodel.Template{{Fail: true}}}, mayFail: true},
		{s: &refmodel.LineFormat{T: refmodel.Template{tv("missing"), tl("<"), tv("c"), tl(">")}}},
		{s: &refmodel.LineFormat{T: refmodel.Template{tl("const")}}},
		// regular-expression replacement with and without expansion of $1 in the replacement
		{s: &refmodel.LineFormat{T: refmodel.Template{tl("<"), {Repl: &refmodel.ReplPart{Re: "(x)", Label: "c", With: "$1$1-$0"}}, tl("|"), {Repl: &refmodel.ReplPart{Re: "(x)", Label: "c", With: "$1$1-$0", Literal: true}}, tl(">")}}},
		{s: lfmt(tpl("d", refmodel.TPart{Repl: &refmodel.ReplPart{Re: "[0-9]", Label: "a", With: "${0}0", Literal: true}}), tpl("e", refmodel.TPart{Repl: &refmodel.ReplPart{Re: "[0-9]", Label: "b", With: "${0}0"}}))},
		// write some text, then fail for the records that lack label b (state must not leak into the next record)
		{s: &refmodel.LineFormat{T: refmodel.Template{tl("L"), tv("a"), tl(":"), {Div: "b"}}}, mayFail: true},
		{s: lfmt(tpl("d", tl("D"), tv("c"), tl(":"), refmodel.TPart{Div: "b"}), tpl("e", tl("E"), tv("a"))), mayFail: true},
		{s: &refmodel.Drop{Items: []refmodel.DKItem{dk("a")}}},
		{s: &refmodel.Drop{Items: []refmodel.DKItem{dk("a"), dk("c"), dk("missing")}}},
		{s: &refmodel.Drop{Items: []refmodel.DKItem{dm("c", "=", "x")}}},
		{s: &refmodel.Drop{Items: []refmodel.DKItem{dm("c", "!=", "x")}}},
		{s: &refmodel.Drop{Items: []refmodel.DKItem{dm("a", "=~", "[0-9]")}}},
		{s: &refmodel.Drop{Items: []refmodel.DKItem{dk("b"), dm("a", "=", "nomatch")}}},
		{s: &refmodel.Drop{Items: []refmodel.DKItem{dk("__error__")}}, isDropErr: true},
		{s: &refmodel.Drop{Items: []refmodel.DKItem{dm("msg", "=", "l")}}},
		{s: &refmodel.Drop{Items: []refmodel.DKItem{dm("msg", "!=", "l"), dm("c", "=~", "")}}},
		{s: &refmodel.Keep{Items: []refmodel.DKItem{dm("msg", "=", "l"), dm("a", "!=", "")}}, isKeep: true},
		{s: lfmt(ren("d", "a"), tpl("e", tl("["), tv("d"), tl("|"), tv("a"), tl("]")))},
		{s: &refmodel.Keep{Items: []refmodel.DKItem{dk("a")}}, isKeep: true},
		{s: &refmodel.Keep{Items: []refmodel.DKItem{dk("a"), dk("msg"), dk("missing")}}, isKeep: true},
		{s: &refmodel.Keep{Items: []refmodel.DKItem{dm("c", "=", "x")}}, isKeep: true},
		{s: &refmodel.Keep{Items: []refmodel.DKItem{dm("c", "!~", "x"), dk("b")}}, isKeep: true},
		// several matchers on one label around a matcher on another one. Whether the matchers of one label combine by
		// "all" (this engine) or by "any" (Loki) is not stated anywhere: the two on a agree on every value of the data.
		{s: &refmodel.Keep{Items: []refmodel.DKItem{dm("a", "=~", "1.*"), dm("b", "=", "2"), dm("a", "=~", "1|12")}}, isKeep: true},
		{s: &refmodel.Drop{Items: []refmodel.DKItem{dm("a", "=", "1"), dm("b", "=", "3"), dm("a", "=~", "1")}}},
		{s: &refmodel.Drop{Items: []refmodel.DKItem{dm("a", "=", "2")}}},
		{s: &refmodel.Decolorize{}},
		// text that begins and ends with a quotation mark (inside a raw string it stands for itself)
		{s: &refmodel.LineFormat{T: refmodel.Template{tl(`"a=`), tv("a"), tl(` c="`), tv("c"), tl(`"`)}}},
		{s: lfmt(tpl("d", tl(`"`), tv("b"), tl(`"`)))},
		// the dot of a label expression does not match a line break
		{s: &refmodel.Drop{Items: []refmodel.DKItem{dm("n", "=~", ".+")}}},
		{s: &refmodel.Keep{Items: []refmodel.DKItem{dm("n", "=~", ".*"), dm("a", "!~", ".+")}}, isKeep: true},
		{s: &refmodel.Drop{Items: []refmodel.DKItem{dm("n", "!~", ".*"), dm("u", "=~", "x.*")}}},
		// a template over the old value of the label it overwrites (every record on its own: once)
		{s: lfmt(tpl("a", tl("p-"), tv("a")))},
		{s: lfmt(tpl("c", tl("<"), tv("c"), tl(">")), tpl("d", tv("b")))},
		// literal text with a carriage return, a line break and a tab in it (in a raw string they stand for themselves)
		{s: &refmodel.LineFormat{T: refmodel.Template{tl("a\r\nb\t"), tv("a"), tl("\r")}}},
		{s: lfmt(tpl("d", tl("x\r"), tv("c"), tl("\n")))},
		{s: &refmodel.Drop{Items: []refmodel.DKItem{dm("c", "=", "x\r")}}},
		// widths in characters, over values of several bytes per character: narrower than the value, as wide as it is in
		// characters, as wide as it is in bytes, wider
		{s: &refmodel.LineFormat{T: refmodel.Template{al(false, 3, "u"), tl("|"), al(true, 3, "u"), tl("|"), al(false, 4, "u"), tl("|"), al(true, 8, "u"), tl("|"), al(false, 10, "u"), tl("|"), al(true, 10, "u"), tl("|"), al(false, 0, "u"), tl("|"), al(false, 2, "a")}}},
		{s: lfmt(tpl("d", al(false, 8, "u"), tl("|")), tpl("e", al(true, 7, "u"), tl("|"), al(true, 5, "c")))},
		// an expression that carries its own anchors and a top-level alternation still has to match the whole value
		{s: &refmodel.Drop{Items: []refmodel.DKItem{dm("a", "=~", "^1|2$")}}},
		{s: &refmodel.Keep{Items: []refmodel.DKItem{dm("a", "=~", "^1|2$"), dm("u", "!~", "^х|x$")}}, isKeep: true},
	}
}

var c07S = c07Stages()

// records: label sets subset of {a=1,b=2,c=x} x lines with/without ANSI sequences
func c07Records() []mockq.Rec {
	lines := []string{"l", "", "\x1b[31mred\x1b[0m", "\x1b[1;32mg", "[31m plain", "\x1b", "pre\x1b[0mpost\x1b[38;5;12mx", "\u009b1;31mred\u009b0m plain", "\x1b[38;2;10;20;30mtrue colour\x1b[0m \x1b[1;4;31;42;5;7mmany\x1b[m"}
	var out []mockq.Rec
	ts := int64(0)
	for mask := 0; mask < 8; mask++ {
		for _, l := range lines {
			var labels []mockq.KV
			if mask&1 != 0 {
				labels = append(labels, mockq.KV{K: "a", V: "1"})
			}
			if mask&2 != 0 {
				labels = append(labels, mockq.KV{K: "b", V: "2"})
			}
			if mask&4 != 0 {
				labels = append(labels, mockq.KV{K: "c", V: "x"})
			}
			ts++
			out = append(out, mockq.Rec{TS: ts * sec, Line: l, Labels: labels})
		}
	}
	// one record with more labels than any small-set threshold (17 extra labels next to a, b, c)
	wide := []mockq.KV{{K: "a", V: "1"}, {K: "b", V: "2"}, {K: "c", V: "x"}}
	for k := 0; k < 17; k++ {
		wide = append(wide, mockq.KV{K: fmt.Sprintf("w%02d", k), V: fmt.Sprintf("v%d", k)})
	}
	ts++
	out = append(out, mockq.Rec{TS: ts * sec, Line: "l", Labels: wide})
	// values of several bytes per character; a value that begins like one alternative of an anchored expression
	for _, ls := range [][]mockq.KV{{{K: "u", V: "хлеб"}, {K: "a", V: "12"}}, {{K: "u", V: "é世x"}, {K: "a", V: "21"}, {K: "c", V: "x"}}, {{K: "u", V: "xх"}, {K: "a", V: "2"}}, {{K: "n", V: "a\nb"}, {K: "u", V: "x\ny"}, {K: "a", V: "1"}}, {{K: "n", V: "\n"}}, {{K: "n", V: "ab"}}} {
		ts++
		out = append(out, mockq.Rec{TS: ts * sec, Line: "l", Labels: ls})
	}
	return out
}

var c07Data = c07Records()

func c07Check(r *vkit.Run, in c07Input) bool {
	r.Begin("C07", in)
	q := &refmodel.LogQuery{}
	data := c07Data
	if in.JSON {
		q.Stages = append(q.Stages, &refmodel.JSONStage{})
		data = c07JSONData
	}
	ignoreErr := false
	sawFail := false
	for _, si := range in.Stages {
		st := c07S[si]
		q.Stages = append(q.Stages, st.s)
		if sawFail && st.isKeep {
			ignoreErr = true // whether keep retains __error__ is not specified (§4)
		}
		if st.mayFail {
			sawFail = true
		}
	}
	in.Text = q.Text()
	if in.Raw {
		in.Text = rawQuoted(in.Text)
	}
	res := evalLog(data, logqlengine.QuerierCapabilities{}, in.Text, -1)
	r.Eval()
	r.Step(len(data) * len(in.Stages))
	want := refmodel.EvalLog(q, data, -1)
	fail := func(why string, got, exp any) {
		r.Fail("C07", in, nil, got, exp, in.Text+": "+why, "")
	}
	if res.Panic != "" || res.Err != "" {
		fail(fmt.Sprint(res.brief()), res.brief(), nil)
		return false
	}
	if len(res.Entries) != len(data) {
		fail(fmt.Sprintf("%d entries returned for %d records: a rewriting stage never drops a line", len(res.Entries), len(data)), len(res.Entries), len(data))
		return false
	}
	byTS := map[int64]outEntry{}
	for _, e := range res.Entries {
		byTS[e.TS] = e
	}
	// Labels a stage does not name are not touched by it. The model checks that for the labels it knows; the text of
	// __error_details__ is the implementation's own, so it is compared with the implementation itself: after a last
	// stage that is a drop or a label_format not naming it, every record carries exactly the __error_details__ it
	// carries without that stage (stages whose own template can fail are exempt: they may write their own).
	if n := len(in.Stages); n >= 2 {
		last := c07S[in.Stages[n-1]]
		names := false
		switch x := last.s.(type) {
		case *refmodel.Drop:
			for _, it := range x.Items {
				names = names || it.Label == refmodel.ErrorDetails
			}
		case *refmodel.LabelFormat:
			for _, it := range x.Items {
				names = names || it.Dst == refmodel.ErrorDetails || it.Src == refmodel.ErrorDetails
			}
		default:
			names = true // keep removes what it does not name; the other stages are not about labels
		}
		if !names && !last.mayFail { // (a stage whose own template may fail may write its own details)
			pq := &refmodel.LogQuery{Stages: q.Stages[:len(q.Stages)-1]}
			prefix := evalLog(data, logqlengine.QuerierCapabilities{}, pq.Text(), -1)
			r.Eval()
			before := map[int64]string{}
			for _, e := range prefix.Entries {
				before[e.TS] = e.Labels[refmodel.ErrorDetails]
			}
			for _, e := range res.Entries {
				if b, a := before[e.TS], e.Labels[refmodel.ErrorDetails]; a != b {
					fail(fmt.Sprintf("record at %ds: __error_details__ is %q after the last stage and %q before it, and the stage does not name that label", e.TS/sec, a, b), a, b)
					return false
				}
			}
		}
	}
	changed := false
	for i, w := range want {
		g, ok := byTS[w.TS]
		if !ok {
			fail(fmt.Sprintf("record at %ds is missing", w.TS/sec), nil, nil)
			return false
		}
		if g.Line != w.Line {
			fail(fmt.Sprintf("record %d (%q, labels %s): line is %q, expected %q", i, data[i].Line, refmodel.Labels(mockq.InitialLabels(data[i])).Key(), g.Line, w.Line), g.Line, w.Line)
			return false
		}
		gl, wl := refmodel.Labels{}, refmodel.Labels{}
		for k, v := range g.Labels {
			gl[k] = v
		}
		for k, v := range w.Labels {
			wl[k] = v
		}
		if ignoreErr {
			delete(gl, refmodel.ErrorLabel)
			delete(wl, refmodel.ErrorLabel)
			delete(gl, refmodel.ErrorDetails)
			delete(wl, refmodel.ErrorDetails)
		}
		if labelsForCompare(gl) != labelsForCompare(wl) {
			fail(fmt.Sprintf("record %d (%q, labels %s): final labels are %s, expected %s", i, data[i].Line, refmodel.Labels(mockq.InitialLabels(data[i])).Key(), labelsForCompare(gl), labelsForCompare(wl)), labelsForCompare(gl), labelsForCompare(wl))
			return false
		}
		if w.Line != data[i].Line || labelsForCompare(wl) != labelsForCompare(refmodel.Labels(mockq.InitialLabels(data[i]))) {
			changed = true
		}
	}
	return changed
}

func c07Run(r *vkit.Run) {
	idx := 0
	visit := func(st []int) {
		idx++
		if !r.Mine(idx) || r.Stop() {
			return
		}
		in := c07Input{Stages: st}
		if c07Check(r, in) {
			r.NonTrivial()
		}
		r.State(fmt.Sprint(st))
		if r.WantSample() && len(st) == 2 {
			q := &refmodel.LogQuery{}
			for _, si := range st {
				q.Stages = append(q.Stages, c07S[si].s)
			}
			r.Sample(map[string]any{"query": q.Text(), "records": len(c07Data)})
		}
	}
	for a := range c07S {
		visit([]int{a})
	}
	// every stage, and every pair, once more with its strings written as raw strings
	for a := range c07S {
		for b := -1; b < len(c07S); b++ {
			idx++
			if !r.Mine(idx) || r.Stop() {
				continue
			}
			st := []int{a}
			if b >= 0 {
				st = append(st, b)
			}
			c07Check(r, c07Input{Stages: st, Raw: true})
		}
	}
	for a := range c07S {
		for b := range c07S {
			visit([]int{a, b})
		}
	}
	// the same stages over labels that come out of `| json` (typed values)
	visitJSON := func(st []int) {
		idx++
		if !r.Mine(idx) || r.Stop() {
			return
		}
		if c07Check(r, c07Input{Stages: st, JSON: true}) {
			r.NonTrivial()
		}
		r.State("json" + fmt.Sprint(st))
	}
	for a := range c07S {
		visitJSON([]int{a})
		for b := range c07S {
			visitJSON([]int{a, b})
		}
	}
	lat := 3
	if r.Thorough() {
		lat = 1
	}
	for a := range c07S {
		for b := range c07S {
			for c := (a + b) % lat; c < len(c07S); c += lat {
				visit([]int{a, b, c})
			}
		}
	}
	r.Note("bounds", fmt.Sprintf("%d records (a 20-label record and all 8 subsets of {a=1,b=2,c=x} x 9 lines with SGR sequences (up to six parameters) (ESC [ and U+009B introducers), lone ESC, bracket text without ESC) x all single stages, ordered pairs and triples (quick: a third of the triples) over %d stages: label_format renames/templates (incl. missing source, failing template, overwriting), line_format (labels, __line__, __timestamp__, failing, missing label), drop/keep with names and =,!=,=~,!~ matchers, decolorize; all single stages and ordered pairs again after | json over 8 JSON lines whose a, b, c are numbers, booleans and strings", len(c07Data), len(c07S)))
}

func c07Replay(r *vkit.Run, v vkit.Violation) *vkit.Violation {
	var in c07Input
	if err := vkit.DecodeInput(v, &in); err != nil {
		r.HarnessError("bad input: %v", err)
	}
	return vkit.ReplayOne(r, func() { c07Check(r, in) })
}
