//go:build verif

package main

import (
	"fmt"
	"sort"
	"strings"

	"github.com/tdakkota/docker-logql/internal/logql/logqlengine"
	"github.com/tdakkota/docker-logql/internal/zzverif/mockq"
	"github.com/tdakkota/docker-logql/internal/zzverif/refmodel"
	"github.com/tdakkota/docker-logql/internal/zzverif/vkit"
)

// quoting-sensitive label values: a naive `k=v,k=v` stream key confuses these sets
var c08Recs = []mockq.Rec{
	{Line: `p`, Labels: []mockq.KV{{K: "a", V: `x"y`}}},
	{Line: `p`, Labels: []mockq.KV{{K: "a", V: `x",b="y`}}},
	{Line: `p`, Labels: []mockq.KV{{K: "a", V: `x`}, {K: "b", V: `y`}}},
	{Line: `p`, Labels: []mockq.KV{{K: "a", V: `x,b=y`}}},
	{Line: `{"k":"v"}`, Labels: []mockq.KV{{K: "a", V: `x`}, {K: "b", V: `y`}}},
	{Line: `{"k":"w","a":"x\"y"}`, Labels: []mockq.KV{{K: "a", V: `x`}}},
	{Line: `q`, Labels: []mockq.KV{{K: "a", V: `x"y`}}},
	{Line: ``, Labels: []mockq.KV{{K: "b", V: `y`}, {K: "a", V: `x`}}},
	{Line: `p`, Labels: []mockq.KV{{K: "a", V: `x`}, {K: "b", V: ``}}},
	{Line: `p`, Labels: []mockq.KV{{K: "a", V: `x`}}},
	{Line: `{"a":1}`, Labels: nil},
	{Line: `{"a":"1"}`, Labels: nil},
	// the values of record 2 swapped between its labels: an order-insensitive combination of names and values confuses the two
	{Line: `p`, Labels: []mockq.KV{{K: "a", V: `y`}, {K: "b", V: `x`}}},
	// --- records below are outside the sequence alphabet (c08Base); they have a family of their own ---
	// long values of equal length that differ only at the very end (a key built from a prefix and a length confuses them)
	{Line: `p`, Labels: []mockq.KV{{K: "a", V: strings.Repeat("L", 100) + "a"}}},
	{Line: `p`, Labels: []mockq.KV{{K: "a", V: strings.Repeat("L", 100) + "b"}}},
	{Line: strings.Repeat("m", 120) + "1", Labels: []mockq.KV{{K: "a", V: `x`}}},
	{Line: strings.Repeat("m", 120) + "2", Labels: []mockq.KV{{K: "a", V: `x`}}},
	// values that are not valid UTF-8, differing only in the invalid bytes; and the replacement character itself
	{Line: `p`, Labels: []mockq.KV{{K: "a", V: "x\xfe"}}},
	{Line: `p`, Labels: []mockq.KV{{K: "a", V: "x\xff"}}},
	{Line: `p`, Labels: []mockq.KV{{K: "a", V: "x\xff\xff"}}},
	{Line: `p`, Labels: []mockq.KV{{K: "a", V: "x\ufffd"}}},
	// trace and span ids: full width, 64-bit ids padded to 128 bits on either side, absent (all zero)
	{Line: `p`, Labels: []mockq.KV{{K: "a", V: `x`}}, Trace: "0102030405060708090a0b0c0d0e0f10", Span: "0102030405060708"},
	{Line: `p`, Labels: []mockq.KV{{K: "a", V: `x`}}, Trace: "000000000000000000000000000000ab", Span: "0000000000000001"},
	{Line: `p`, Labels: []mockq.KV{{K: "a", V: `x`}}, Trace: "ab000000000000000000000000000000", Span: "0100000000000000"},
	{Line: `p`, Labels: []mockq.KV{{K: "a", V: `x`}}, Trace: "00000000000000000000000000000000", Span: "0000000000000000"},
	{Line: `p`, Labels: []mockq.KV{{K: "a", V: `x`}}, Trace: "000000000000000000000000000000ab"},
	{Line: "q\xc3", Labels: []mockq.KV{{K: "a", V: `x`}}},
	{Line: "q\xe4", Labels: []mockq.KV{{K: "a", V: `x`}}},
}

// c08Base: the records of the exhaustive sequence alphabet.
const c08Base = 13

type c08Input struct {
	Recs  []int  `json:"recs"`  // indexes into the record alphabet, in delivery order
	Times string `json:"times"` // "inc", "eq", "pairs"
	Query int    `json:"query"`
	Limit int    `json:"limit"`
	Text  string `json:"text,omitempty"`
	// Backward: the request asks for direction "backward": entries inside a stream are in timestamp order all the same
	Backward bool `json:"backward,omitempty"`
}

func c08Queries() []*refmodel.LogQuery {
	return []*refmodel.LogQuery{
		{},
		{Stages: []refmodel.Stage{&refmodel.JSONStage{}}},
		{Stages: []refmodel.Stage{&refmodel.Drop{Items: []refmodel.DKItem{{Label: "a"}}}}},
		{Stages: []refmodel.Stage{&refmodel.Keep{Items: []refmodel.DKItem{{Label: "a"}}}}},
		{Stages: []refmodel.Stage{&refmodel.LabelFormat{Items: []refmodel.LFItem{{Dst: "c", Src: "a"}}}}},
		{Stages: []refmodel.Stage{&refmodel.Drop{Items: []refmodel.DKItem{{Label: "msg"}, {Label: "b"}}}}},
		{Stages: []refmodel.Stage{&refmodel.JSONStage{}, &refmodel.Drop{Items: []refmodel.DKItem{{Label: "a"}, {Label: "msg"}}}}},
		{Stages: []refmodel.Stage{&refmodel.LineFilter{Op: "!=", Value: "q"}, &refmodel.Keep{Items: []refmodel.DKItem{{Label: "b"}}}}},
		{Stages: []refmodel.Stage{&refmodel.JSONStage{}, &refmodel.Keep{Items: []refmodel.DKItem{{Label: "a"}}}}},
		// two drop stages in a row on one label (each stage on its own: the second sees what the first left)
		{Stages: []refmodel.Stage{&refmodel.Drop{Items: []refmodel.DKItem{{Label: "a", Op: "=", Value: `x`}}}, &refmodel.Drop{Items: []refmodel.DKItem{{Label: "a", Op: "=", Value: `x"y`}}}}},
		{Stages: []refmodel.Stage{&refmodel.Drop{Items: []refmodel.DKItem{{Label: "b"}}}, &refmodel.Drop{Items: []refmodel.DKItem{{Label: "b", Op: "=", Value: `y`}, {Label: "a", Op: "=~", Value: `x.*`}}}}},
		// an address filter over values that are no addresses, the same one several times in a row
		{Stages: []refmodel.Stage{&refmodel.LabelFilter{P: &refmodel.PIP{Label: "b", Op: "!=", Value: "10.0.0.0/8"}}}},
		{Stages: []refmodel.Stage{&refmodel.LabelFilter{P: &refmodel.PIP{Label: "a", Op: "==", Value: "10.0.0.0/8"}}}},
		// a label rewritten from its own old value: records that shared a label set still share one afterwards
		{Stages: []refmodel.Stage{&refmodel.LabelFormat{Items: []refmodel.LFItem{{Dst: "a", T: refmodel.Template{{Label: "a"}, {Lit: "-p"}}}}}}},
	}
}

var c08Q = c08Queries()

func c08Data(in c08Input) []mockq.Rec {
	var out []mockq.Rec
	for i, ri := range in.Recs {
		r := c08Recs[ri]
		switch in.Times {
		case "inc":
			r.TS = int64(i+1) * sec
		case "eq":
			r.TS = 5 * sec
		case "pairs":
			r.TS = int64(i/2+1) * sec
		case "late": // the query window starts at 100 s; records 0 and 1 lie 25 s and 15 s before it
			r.TS = int64(100+i) * sec
			if i < 2 {
				r.TS = int64(75+10*i) * sec
			}
		default: // "perm:2,0,1": the storage delivers the records out of time order
			var ts int64
			fmt.Sscanf(strings.Split(strings.TrimPrefix(in.Times, "perm:"), ",")[i], "%d", &ts)
			r.TS = (ts + 1) * sec
		}
		out = append(out, r)
	}
	return out
}

func labelsForCompare(l refmodel.Labels) string {
	c := refmodel.Labels{}
	for k, v := range l {
		switch k {
		case refmodel.ErrorDetails: // the implementation's own text: never part of the model (see C07's relation on it)
		case refmodel.ErrorLabel:
			c[k] = "<set>"
		default:
			c[k] = v
		}
	}
	return c.Key()
}

func c08Check(r *vkit.Run, in c08Input) bool {
	r.Begin("C08", in)
	q := c08Q[in.Query]
	data := c08Data(in)
	in.Text = q.Text()
	var res logResult
	if in.Times == "late" {
		// a range query without a step over [100 s, ...]: the storage honours the window, the two early records are no
		// matching records
		res = evalLogStep(newEngine(mockq.New(data)), in.Text, 100*sec, 1<<50, 0, in.Limit)
		data = data[2:]
	} else if strings.HasPrefix(in.Times, "perm:") {
		res = evalLogOn(newEngine(mockq.NewUnsorted(data)), in.Text, 0, 1<<50, in.Limit)
	} else if in.Backward {
		res = evalLogDir(newEngine(mockq.New(data)), in.Text, 0, 1<<50, in.Limit, "backward")
	} else {
		res = evalLog(data, logqlengine.QuerierCapabilities{}, in.Text, in.Limit)
	}
	r.Eval()
	r.Step(len(data) + 1)
	all := refmodel.EvalLog(q, data, -1)
	n := len(all)
	fail := func(why string) {
		var exp []string
		for _, e := range all {
			exp = append(exp, fmt.Sprintf("%d %q %s", e.TS/sec, e.Line, labelsForCompare(e.Labels)))
		}
		r.Fail("C08", in, nil, res.brief(), map[string]any{"matching_in_time_order": exp, "limit": in.Limit}, fmt.Sprintf("%s limit=%d: %s", in.Text, in.Limit, why), "")
	}
	if res.Panic != "" || res.Err != "" {
		fail(fmt.Sprint(res.brief()))
		return false
	}
	// partition: no two streams share a label set
	seen := map[string]bool{}
	for _, k := range res.StreamKeys {
		if seen[k] {
			fail("two streams carry the same label set " + k)
			return false
		}
		seen[k] = true
	}
	// per-stream order
	last := map[int]int64{}
	for _, e := range res.Entries {
		if t, ok := last[e.Stream]; ok && e.TS < t {
			fail("entries inside a stream are not in timestamp order")
			return false
		}
		last[e.Stream] = e.TS
	}
	// count
	want := n
	if in.Limit > 0 && in.Limit < n {
		want = in.Limit
	}
	if len(res.Entries) != want {
		fail(fmt.Sprintf("%d entries returned, expected %d (matching records: %d)", len(res.Entries), want, n))
		return false
	}
	// every entry sits under exactly its final labels, and the returned entries are a tie-consistent
	// choice of the first `want` matching records in time order
	avail := map[string]int{}
	availTS := map[string]int64{}
	for _, e := range all {
		k := refmodel.EntryKey(e.TS, e.Line) + labelsForCompare(e.Labels)
		avail[k]++
		availTS[k] = e.TS
	}
	var cutoff int64 = 1 << 62
	if want < n && want > 0 {
		cutoff = all[want-1].TS
	}
	got := map[string]int{}
	for _, e := range res.Entries {
		k := refmodel.EntryKey(e.TS, e.Line) + labelsForCompare(e.Labels)
		got[k]++
		if got[k] > avail[k] {
			fail(fmt.Sprintf("entry (%ds, %q) sits in a stream with labels %s more often than matching records carry exactly these labels", e.TS/sec, e.Line, labelsForCompare(e.Labels)))
			return false
		}
		if e.TS > cutoff {
			fail(fmt.Sprintf("entry at %ds returned although the limit is reached by earlier records (cut-off %ds)", e.TS/sec, cutoff/sec))
			return false
		}
	}
	for k, nAvail := range avail {
		if availTS[k] < cutoff && got[k] != nAvail {
			fail("a matching record earlier than the limit cut-off is missing from the result")
			return false
		}
	}
	return len(seen) >= 2
}

func c08Run(r *vkit.Run) {
	maxLen := 3
	if r.Thorough() {
		maxLen = 4
	}
	idx := 0
	var seqs [][]int
	var rec func(cur []int)
	rec = func(cur []int) {
		seqs = append(seqs, append([]int(nil), cur...))
		if len(cur) == maxLen {
			return
		}
		for i := 0; i < c08Base; i++ {
			rec(append(cur, i))
		}
	}
	rec(nil)
	sort.SliceStable(seqs, func(i, j int) bool { return len(seqs[i]) < len(seqs[j]) })
	// long and non-UTF-8 values: every sequence of length <= 3 over those records and one plain record
	{
		special := []int{9}
		for i := c08Base; i < len(c08Recs); i++ {
			special = append(special, i)
		}
		for _, a := range special {
			for _, b := range special {
				seqs = append(seqs, []int{a, b})
				for _, c := range special {
					seqs = append(seqs, []int{a, b, c})
				}
			}
		}
	}
	// a few longer data sets
	seqs = append(seqs, []int{0, 1, 2, 3, 4, 5}, []int{6, 0, 6, 0, 7, 7}, []int{2, 7, 4, 2, 7, 4}, []int{5, 4, 3, 2, 1, 0})
	if r.Thorough() {
		for a := 0; a < c08Base; a++ {
			for b := 0; b < c08Base; b++ {
				for c := 0; c < c08Base; c++ {
					seqs = append(seqs, []int{a, b, c, (a + 1) % 8, (b + 3) % 8})
				}
			}
		}
	}
	for _, s := range seqs {
		idx++
		if !r.Mine(idx) {
			continue
		}
		if r.Stop() {
			break
		}
		n := len(s)
		nontrivial := false
		for _, tm := range []string{"inc", "eq", "pairs"} {
			for qi := range c08Q {
				for _, lim := range []int{-5, -1, 0, 1, n - 1, n, n + 1, 2} {
					in := c08Input{Recs: s, Times: tm, Query: qi, Limit: lim}
					if c08Check(r, in) {
						nontrivial = true
					}
					if r.WantSample() && n == 3 && qi == 1 && lim == 2 && tm == "pairs" {
						r.Sample(map[string]any{"input": in, "query": c08Q[qi].Text()})
					}
				}
			}
		}
		if nontrivial {
			r.NonTrivial()
		}
		r.State(fmt.Sprint(s))
	}
	// the same with the direction of the request set to backward (limits that every record fits under, and none)
	for _, sq := range [][]int{{7, 7, 7}, {0, 1, 2, 3, 4, 5}, {7, 0, 7, 0}, {2, 7, 4, 2, 7, 4}} {
		idx++
		if !r.Mine(idx) || r.Stop() {
			continue
		}
		for _, tm := range []string{"inc", "pairs"} {
			for _, qi := range []int{0, 3, 5} {
				for _, lim := range []int{-1, 0, len(sq), len(sq) + 2} {
					if c08Check(r, c08Input{Recs: sq, Times: tm, Query: qi, Limit: lim, Backward: true}) {
						r.NonTrivial()
					}
				}
			}
		}
	}
	// a window that starts after the first records, in a range query without a step
	for _, sq := range [][]int{{7, 7, 7, 0, 7}, {0, 1, 2, 3, 4, 5}, {7, 0, 7, 0}} {
		idx++
		if !r.Mine(idx) || r.Stop() {
			continue
		}
		for _, qi := range []int{0, 3} {
			for _, lim := range []int{-1, 0, 1, 2, len(sq)} {
				if c08Check(r, c08Input{Recs: sq, Times: "late", Query: qi, Limit: lim}) {
					r.NonTrivial()
				}
			}
		}
	}
	// many records: a non-positive limit returns all of them, however many (default caps such as 100 or 1000 are not "all")
	for _, n := range []int{101, 1001, 5003} {
		seq := make([]int, n)
		for i := range seq {
			seq[i] = (i*7 + i/13) % c08Base
		}
		for _, lim := range []int{0, -1, 100, 1000, n - 1, n, n + 1} {
			idx++
			if !r.Mine(idx) || r.Stop() {
				continue
			}
			for _, qi := range []int{0, 3} {
				if c08Check(r, c08Input{Recs: seq, Times: "inc", Query: qi, Limit: lim}) {
					r.NonTrivial()
				}
			}
		}
		r.GlobalState(fmt.Sprintf("large-%d", n))
	}
	// delivery out of time order (a container's own log need not be time-ordered): every permutation of the
	// timestamps of one-stream and two-stream data sets; no limit (which records a limit picks from unordered
	// storage is not defined by the property)
	for _, s := range [][]int{{7, 7, 7}, {7, 7, 7, 7}, {7, 0, 7, 0}, {0, 7, 7, 0, 7}, {7, 7, 7, 7, 7}} {
		n := len(s)
		perm := make([]int, n)
		for i := range perm {
			perm[i] = i
		}
		var all [][]int
		var gen func(k int)
		gen = func(k int) {
			if k == n {
				all = append(all, append([]int(nil), perm...))
				return
			}
			for i := k; i < n; i++ {
				perm[k], perm[i] = perm[i], perm[k]
				gen(k + 1)
				perm[k], perm[i] = perm[i], perm[k]
			}
		}
		gen(0)
		for _, pm := range all {
			idx++
			if !r.Mine(idx) || r.Stop() {
				continue
			}
			var parts []string
			for _, v := range pm {
				parts = append(parts, fmt.Sprint(v))
			}
			for _, qi := range []int{0, 3} {
				// (a limit that every record fits under selects them all: the order inside each stream is still defined)
				for _, lim := range []int{-1, 0, n, n + 3} {
					if c08Check(r, c08Input{Recs: s, Times: "perm:" + strings.Join(parts, ","), Query: qi, Limit: lim}) {
						r.NonTrivial()
					}
				}
			}
			r.State(fmt.Sprint(s, pm))
		}
	}
	r.Note("bounds", fmt.Sprintf("all record sequences of length <=%d over an 8-record alphabet with quoting-sensitive label values (plus longer sets) x 3 timestamp patterns (increasing, all equal, pairwise ties) x %d label-rewriting queries x limits {-5,-1,0,1,2,N-1,N,N+1}; every permutation of the delivery order of 3-5 records of one or two streams (no limit); data sets of 101, 1001 and 5003 records under limits {0,-1,100,1000,N-1,N,N+1}", maxLen, len(c08Q)))
}

func c08Replay(r *vkit.Run, v vkit.Violation) *vkit.Violation {
	var in c08Input
	if err := vkit.DecodeInput(v, &in); err != nil {
		r.HarnessError("bad input: %v", err)
	}
	return vkit.ReplayOne(r, func() { c08Check(r, in) })
}
