//go:build verif

package main

import (
	"fmt"
	"github.com/tdakkota/docker-logql/internal/logql"
	"github.com/tdakkota/docker-logql/internal/zzverif/mockq"
	"sort"
	"strings"

	"github.com/tdakkota/docker-logql/internal/logql/logqlengine"
	"github.com/tdakkota/docker-logql/internal/zzverif/refmodel"
	"github.com/tdakkota/docker-logql/internal/zzverif/vkit"
)

// c19Input names one relation instance; queries are given as text (no reference model is involved).
type c19Input struct {
	Relation string   `json:"relation"`
	Queries  []string `json:"queries"`
	// Dup: evaluated over the small data set with repeated (timestamp, line) records instead of C01's alphabet
	Dup bool `json:"dup,omitempty"`
	// Full: the storage advertises every label and line operator (whatever the engine offloads is evaluated there)
	Full bool `json:"full,omitempty"`
}

// c19Dup: records that repeat (same timestamp, same line, same labels), adjacent and not.
var c19Dup = []mockq.Rec{
	{TS: 1 * sec, Line: "tick a"}, {TS: 1 * sec, Line: "tock b"}, {TS: 1 * sec, Line: "tick a"},
	{TS: 2 * sec, Line: "a"}, {TS: 2 * sec, Line: "a"}, {TS: 2 * sec, Line: "b"}, {TS: 3 * sec, Line: "ab"}, {TS: 2 * sec, Line: "a"},
	// lines far longer than any buffer or search window a filter might use, the needle at the very end or nowhere
	{TS: 4 * sec, Line: strings.Repeat("z", 70000) + "a"}, {TS: 5 * sec, Line: strings.Repeat("z", 70000)}, {TS: 6 * sec, Line: strings.Repeat("y ", 40000) + "=b"},
}

var c19Bases = []string{
	`{}`,
	`{} | json`,
	`{} | logfmt`,
	`{} | line_format "{{.app}} {{__line__}}"`,
	`{} | json | y="a"`,
	`{} | logfmt | x > 5`,
	`{app="x"} |= "a"`,
	`{} | drop env | logfmt`,
	`{} | label_format z=app`,
	`{} | decolorize | logfmt x, sz`,
	`{} | decolorize`,
	`{} | logfmt | distinct y`,
	`{} | distinct app | line_format "{{.app}}:{{__line__}}"`,
}

type c19Filter struct {
	text string
	neg  string // textual negation ("" if none is enumerated)
	pred string // predicate text when the filter is a label filter (for and/or)
}

func c19Filters() []c19Filter {
	var out []c19Filter
	q := func(s string) string {
		return refmodel.SelText([]refmodel.Matcher{{Label: "x", Op: "=", Value: s}})[3:]
	} // quoted literal
	q = func(s string) string { return (&refmodel.LineFilter{Op: "|=", Value: s}).Text()[3:] }
	for _, s := range []string{"", "a", "\xff", "é", "a|b", ".", "b ", "="} {
		out = append(out, c19Filter{text: "|= " + q(s), neg: "!= " + q(s)})
	}
	for _, s := range []string{"", "a", "é", "a|b", "^$", "(?i)A", ".", "\\d+", "^.*=", "[^a]$", "^a$", "^ab$", "\\Aa\\z", "^b", "b$", "^(a)$"} {
		out = append(out, c19Filter{text: "|~ " + q(s), neg: "!~ " + q(s)})
	}
	for _, s := range []string{"10.0.0.1", "10.0.0.1-10.0.0.5", "10.0.0.0/24", "::1", "192.168.0.0/16", "fe80::/10", "ff00::/8"} {
		out = append(out, c19Filter{text: `|= ip("` + s + `")`, neg: `!= ip("` + s + `")`})
	}
	for _, m := range [][2]string{{"x", ""}, {"sz", ""}, {"tags", "a"}, {"tags", `[]`}, {"app", "x"}, {"y", "a"}, {"y", ""}, {"env", "p"}, {"missing", ""}, {"msg", "a"}, {"x", "007"}, {"x", "5.0"}, {"y", "b"}} {
		out = append(out, c19Filter{text: `| ` + m[0] + `="` + m[1] + `"`, neg: `| ` + m[0] + `!="` + m[1] + `"`, pred: m[0] + `="` + m[1] + `"`})
	}
	for _, m := range [][2]string{{"y", "a.+"}, {"y", ".+"}, {"msg", "a.*"}, {"tags", "a"}, {"tags", ".*a.*"}, {"app", "x|y"}, {"y", "a.*"}, {"y", ".*"}, {"env", ".+"}, {"x", "\\\\d+"}, {"x", "0.*|1e1"}} {
		out = append(out, c19Filter{text: `| ` + m[0] + `=~"` + m[1] + `"`, neg: `| ` + m[0] + `!~"` + m[1] + `"`, pred: m[0] + `=~"` + m[1] + `"`})
	}
	// the negated matchers as predicates of their own (operands of and / or, also on the label of the other operand)
	for _, m := range [][3]string{{"app", "!=", "x"}, {"y", "!=", "a"}, {"y", "!=", "b"}, {"env", "!=", "p"}, {"y", "!~", "a.*"}, {"missing", "!=", ""}} {
		out = append(out, c19Filter{text: `| ` + m[0] + m[1] + `"` + m[2] + `"`, pred: m[0] + m[1] + `"` + m[2] + `"`})
	}
	for _, p := range []string{`x > 5`, `x <= 5`, `x == 5`, `x != 7`, `x >= 7`, `d >= 1s`, `d < 1h`, `sz > 1KB`, `sz <= 1KB`, `ip == ip("10.0.0.1")`, `ip != ip("10.0.0.0/24")`} {
		out = append(out, c19Filter{text: `| ` + p, pred: p})
	}
	return out
}

func c19Eval(query string, dup, full bool) (map[string]int, string) {
	data := c01All
	if dup {
		data = c19Dup
	}
	var caps logqlengine.QuerierCapabilities
	if full {
		for _, op := range []logql.BinOp{logql.OpEq, logql.OpNotEq, logql.OpRe, logql.OpNotRe} {
			caps.Label.Add(op)
			caps.Line.Add(op)
		}
	}
	res := evalLog(data, caps, query, -1)
	if res.Panic != "" {
		return nil, "panic: " + res.Panic
	}
	if res.Err != "" {
		return nil, "error: " + res.Err
	}
	return entryMultiset(res.Entries), ""
}

func msUnion(a, b map[string]int) map[string]int { // set union (timestamps are unique)
	out := map[string]int{}
	for k := range a {
		out[k] = 1
	}
	for k := range b {
		out[k] = 1
	}
	return out
}

func msInter(a, b map[string]int) map[string]int {
	out := map[string]int{}
	for k := range a {
		if b[k] > 0 {
			out[k] = 1
		}
	}
	return out
}

func msSum(a, b map[string]int) map[string]int {
	out := map[string]int{}
	for k, n := range a {
		out[k] += n
	}
	for k, n := range b {
		out[k] += n
	}
	return out
}

func msKeys(m map[string]int) []string {
	var ks []string
	for k, n := range m {
		ks = append(ks, fmt.Sprintf("%s x%d", k, n))
	}
	sort.Strings(ks)
	return ks
}

func c19Check(r *vkit.Run, in c19Input) (nontrivial bool) {
	r.Begin("C19", in)
	var ms []map[string]int
	for _, q := range in.Queries {
		m, bad := c19Eval(q, in.Dup, in.Full)
		r.Eval()
		r.Step(1)
		if bad != "" {
			r.Fail("C19", in, nil, bad, nil, q+": "+bad, "")
			return false
		}
		ms = append(ms, m)
	}
	fail := func(got, want map[string]int, why string) {
		r.Fail("C19/"+in.Relation, in, nil, msKeys(got), msKeys(want), why+": "+diffMultiset(got, want), "")
	}
	switch in.Relation {
	case "subset": // q|f, q
		for k, n := range ms[0] {
			if ms[1][k] < n {
				fail(ms[0], ms[1], in.Queries[0]+" returns an entry that "+in.Queries[1]+" does not")
				return
			}
		}
		return len(ms[0]) > 0 && len(ms[0]) < len(ms[1])
	case "partition": // q|f, q|!f, q
		if d := diffMultiset(msSum(ms[0], ms[1]), ms[2]); d != "" {
			fail(msSum(ms[0], ms[1]), ms[2], "a filter and its negation do not split the result into two disjoint parts that together are the result")
			return
		}
		return len(ms[0]) > 0 && len(ms[1]) > 0
	case "equal": // commute, idempotent, always-true
		if d := diffMultiset(ms[0], ms[1]); d != "" {
			fail(ms[0], ms[1], in.Queries[0]+" differs from "+in.Queries[1])
			return
		}
		return len(ms[0]) > 0
	case "and": // q | a and b, q|a, q|b
		if d := diffMultiset(ms[0], msInter(ms[1], ms[2])); d != "" {
			fail(ms[0], msInter(ms[1], ms[2]), "`a and b` is not the intersection of `a` and `b`")
			return
		}
		return len(ms[1]) > 0 && len(ms[2]) > 0
	case "or":
		if d := diffMultiset(ms[0], msUnion(ms[1], ms[2])); d != "" {
			fail(ms[0], msUnion(ms[1], ms[2]), "`a or b` is not the union of `a` and `b`")
			return
		}
		return len(ms[1]) > 0 && len(ms[2]) > 0
	}
	r.HarnessError("unknown relation %s", in.Relation)
	return false
}

func c19Run(r *vkit.Run) {
	fs := c19Filters()
	idx := 0
	visit := func(in c19Input) {
		idx++
		if !r.Mine(idx) || r.Stop() {
			return
		}
		if c19Check(r, in) {
			r.NonTrivial()
		}
		r.State(in.Relation + in.Queries[0])
		if r.WantSample() && in.Relation == "partition" {
			r.Sample(in)
		}
	}
	for _, base := range c19Bases {
		visit(c19Input{Relation: "equal", Queries: []string{base + ` |= ""`, base}})
		for _, f := range fs {
			visit(c19Input{Relation: "subset", Queries: []string{base + " " + f.text, base}})
			visit(c19Input{Relation: "equal", Queries: []string{base + " " + f.text + " " + f.text, base + " " + f.text}})
			if f.neg != "" {
				visit(c19Input{Relation: "partition", Queries: []string{base + " " + f.text, base + " " + f.neg, base}})
				visit(c19Input{Relation: "subset", Queries: []string{base + " " + f.neg, base}})
			}
		}
		for i, f := range fs {
			for j, g := range fs {
				if i < j {
					visit(c19Input{Relation: "equal", Queries: []string{base + " " + f.text + " " + g.text, base + " " + g.text + " " + f.text}})
				}
				if i < j && f.neg != "" && g.neg != "" && (i+j)%2 == 0 {
					// negated filters commute as well, with each other and with positive ones
					visit(c19Input{Relation: "equal", Queries: []string{base + " " + f.neg + " " + g.neg, base + " " + g.neg + " " + f.neg}})
					visit(c19Input{Relation: "equal", Queries: []string{base + " " + f.neg + " " + g.text, base + " " + g.text + " " + f.neg}})
				}
				if f.pred != "" && g.pred != "" && i != j {
					visit(c19Input{Relation: "and", Queries: []string{base + " | " + f.pred + " and " + g.pred, base + " " + f.text, base + " " + g.text}})
					visit(c19Input{Relation: "or", Queries: []string{base + " | " + f.pred + " or " + g.pred, base + " " + f.text, base + " " + g.text}})
					if (i+j)%4 == 0 {
						visit(c19Input{Relation: "and", Queries: []string{base + " | " + f.pred + ", " + g.pred, base + " " + f.text, base + " " + g.text}})
						visit(c19Input{Relation: "and", Queries: []string{base + " | " + f.pred + " " + g.pred, base + " " + f.text, base + " " + g.text}})
					}
				}
			}
		}
	}
	// compound operands in parentheses: a and (b or c) is the intersection of a with (b or c), and so on for the other
	// three nestings -- parentheses group, whatever the precedence of the operators
	{
		tri := []string{`app="x"`, `y="a"`, `env="p"`, `x > 5`, `y!="b"`, `msg=~"a.*"`}
		for bi, base := range c19Bases {
			if bi >= 3 {
				break
			}
			for i, a := range tri {
				for j, b := range tri {
					for k, c := range tri {
						if i == j || j == k || i == k {
							continue
						}
						visit(c19Input{Relation: "and", Queries: []string{base + " | " + a + " and (" + b + " or " + c + ")", base + " | " + a, base + " | " + b + " or " + c}})
						visit(c19Input{Relation: "and", Queries: []string{base + " | (" + a + " or " + b + ") and " + c, base + " | " + a + " or " + b, base + " | " + c}})
						visit(c19Input{Relation: "or", Queries: []string{base + " | " + a + " or (" + b + " and " + c + ")", base + " | " + a, base + " | " + b + " and " + c}})
						visit(c19Input{Relation: "or", Queries: []string{base + " | (" + a + " and " + b + ") or " + c, base + " | " + a + " and " + b, base + " | " + c}})
						if (i+j+k)%3 == 0 {
							visit(c19Input{Relation: "and", Queries: []string{base + " | " + a + ", (" + b + " or " + c + ")", base + " | " + a, base + " | " + b + " or " + c}})
							visit(c19Input{Relation: "and", Queries: []string{base + " | " + a + " (" + b + " or " + c + ")", base + " | " + a, base + " | " + b + " or " + c}})
						}
					}
				}
			}
		}
	}
	// a storage that accepts everything: and / or / partition over the stream's own labels, filters first in the pipeline
	for i, f := range fs {
		if f.neg != "" {
			visit(c19Input{Relation: "partition", Queries: []string{`{} ` + f.text, `{} ` + f.neg, `{}`}, Full: true})
		}
		for j, g := range fs {
			if f.pred != "" && g.pred != "" && i != j {
				visit(c19Input{Relation: "and", Queries: []string{`{} | ` + f.pred + " and " + g.pred, `{} ` + f.text, `{} ` + g.text}, Full: true})
				visit(c19Input{Relation: "or", Queries: []string{`{} | ` + f.pred + " or " + g.pred, `{} ` + f.text, `{} ` + g.text}, Full: true})
			}
		}
	}
	// repeated records: sub-multiset, partition and commutation count multiplicities
	for _, f := range fs {
		base := `{}`
		visit(c19Input{Relation: "subset", Queries: []string{base + " " + f.text, base}, Dup: true})
		visit(c19Input{Relation: "equal", Queries: []string{base + " " + f.text + " " + f.text, base + " " + f.text}, Dup: true})
		if f.neg != "" {
			visit(c19Input{Relation: "partition", Queries: []string{base + " " + f.text, base + " " + f.neg, base}, Dup: true})
		}
	}
	r.Note("bounds", fmt.Sprintf("%d base pipelines x %d filters (line filters with literal, regex and ip() needles incl. empty, non-UTF-8 and anchors; string, regex, number, duration, bytes and ip label filters) and all their pairs; relations: subset, partition by negation, commutation, idempotence, and = intersection, or = union, |= \"\" = identity; data = the %d-record alphabet of C01 with unique timestamps; storage offloads nothing (and / or / partition on the bare selector again with a storage that accepts every operator); subset / idempotence / partition again over 8 records that repeat (timestamp, line)", len(c19Bases), len(fs), len(c01All)))
}

func c19Replay(r *vkit.Run, v vkit.Violation) *vkit.Violation {
	var in c19Input
	if err := vkit.DecodeInput(v, &in); err != nil {
		r.HarnessError("bad input: %v", err)
	}
	return vkit.ReplayOne(r, func() { c19Check(r, in) })
}
