//go:build verif && verifseam

package vsched

import (
	"math/bits"
	"runtime"
)

// SeamAvailable reports whether this binary was built with the runtime map-order seam.
func SeamAvailable() bool { return true }

var (
	mapCtx    *Ctx
	mapPaused int
	// MapPoints counts map iterations (over maps with >= 2 entries) seen while the hook was active.
	MapPoints int64
)

func mapHook(count int, b uint8, occupied uint8) uintptr {
	if mapPaused > 0 {
		return 0
	}
	MapPoints++
	c := mapCtx
	if c == nil {
		return 0 // deterministic default order
	}
	mapPaused++
	defer func() { mapPaused-- }()
	if b == 0 {
		n := bits.OnesCount8(occupied)
		if n < 2 {
			return 0
		}
		// alternatives: start at the k-th occupied slot, k = 0 being the first occupied one
		k := c.Choose("MAPITER", "", n, nil)
		for slot := uintptr(0); slot < 8; slot++ {
			if occupied&(1<<slot) != 0 {
				if k == 0 {
					return slot
				}
				k--
			}
		}
		return 0
	}
	// several buckets: raw (bucket, offset) pairs under the pinned hash seed
	n := (1 << b) * 8
	if n > 64 {
		n = 64
	}
	k := c.Choose("MAPITER", "multi-bucket", n, nil)
	bucket := uintptr(k) % (1 << b)
	offset := uintptr(k) / (1 << b)
	return bucket | offset<<b
}

// WithMapOrder runs f with every map iteration (maps of >= 2 entries) turned into a MAPITER choice
// point of c; with c == nil every iteration takes the deterministic default order.
func WithMapOrder(c *Ctx, f func()) {
	prev := mapCtx
	mapCtx = c
	runtime.VerifSetMapHook(mapHook)
	defer func() {
		runtime.VerifSetMapHook(nil)
		mapCtx = prev
	}()
	f()
}

// PauseMapOrder suspends the hook (harness-side code running inside the implementation, e.g. the mock storage).
func PauseMapOrder() func() {
	mapPaused++
	return func() { mapPaused-- }
}
