//go:build verif && verifseam

package vsched

import (
	"math/bits"
	"runtime"
)

// SeamAvailable reports whether this binary was built with the runtime map-order seam.
func SeamAvailable() bool { return true }

var (
	mapCtx    *Ctx
	mapPaused int
	// DefaultRot: outside an exploration every map iteration starts at the (DefaultRot mod n)-th of its n
	// possible starting points: 0 is the canonical order, any other value one fixed rotated order.
	DefaultRot int
	// MapPoints counts map iterations (over maps with >= 2 entries) seen while the hook was active.
	MapPoints int64
)

func mapHook(count int, b uint8, occupied uint8) uintptr {
	if mapPaused > 0 {
		return 0
	}
	MapPoints++
	c := mapCtx
	if c == nil && DefaultRot == 0 {
		return 0 // deterministic default order
	}
	mapPaused++
	defer func() { mapPaused-- }()
	choose := func(label string, n int) int {
		if c == nil {
			return DefaultRot % n
		}
		return c.Choose("MAPITER", label, n, nil)
	}
	if b == 0 {
		n := bits.OnesCount8(occupied)
		if n < 2 {
			return 0
		}
		// alternatives: start at the k-th occupied slot, k = 0 being the first occupied one
		k := choose("", n)
		for slot := uintptr(0); slot < 8; slot++ {
			if occupied&(1<<slot) != 0 {
				if k == 0 {
					return slot
				}
				k--
			}
		}
		return 0
	}
	// several buckets: raw (bucket, offset) pairs under the pinned hash seed
	n := (1 << b) * 8
	if n > 64 {
		n = 64
	}
	k := choose("multi-bucket", n)
	bucket := uintptr(k) % (1 << b)
	offset := uintptr(k) / (1 << b)
	return bucket | offset<<b
}

// WithMapOrder runs f with every map iteration (maps of >= 2 entries) turned into a MAPITER choice
// point of c; with c == nil every iteration takes the deterministic default order (DefaultRot).
func WithMapOrder(c *Ctx, f func()) {
	prev := mapCtx
	mapCtx = c
	defer func() { mapCtx = prev }()
	f()
}

// The hook is installed for the whole life of the process: outside WithMapOrder every map iteration, in the
// implementation and in the harness alike, takes the same order in every run (no randomness is left to the
// runtime), so that a recorded case replays identically.
func init() { runtime.VerifSetMapHook(mapHook) }

// PauseMapOrder suspends the hook (harness-side code running inside the implementation, e.g. the mock storage).
func PauseMapOrder() func() {
	mapPaused++
	return func() { mapPaused-- }
}
