//go:build verif && !verifseam

package vsched

// SeamAvailable reports whether this binary was built with the runtime map-order seam.
func SeamAvailable() bool { return false }

// MapPoints is always 0 without the seam.
var MapPoints int64

// DefaultRot has no effect without the seam.
var DefaultRot int

// WithMapOrder just runs f: without the seam the runtime picks map iteration orders at random.
func WithMapOrder(_ *Ctx, f func()) { f() }

// PauseMapOrder is a no-op without the seam.
func PauseMapOrder() func() { return func() {} }
