//go:build verif

// Package vsched is the explorer: a deviation-bounded, stateless depth-first search over
// the choice points an execution of the real code hits (THREAD, MAPITER, ENV), plus the
// cooperative scheduler that turns goroutine scheduling into such choice points.
package vsched

import "fmt"

// Point is one choice point hit by an execution.
type Point struct {
	Kind   string // THREAD, MAPITER, ENV:<what>
	N      int    // number of alternatives (>= 1); alternative 0 is the default
	Chosen int
	Costs  []int // cost of each alternative in deviations (Costs[0] == 0)
	Label  string
}

// Ctx answers choice points for one execution.
type Ctx struct {
	prefix   []int
	Points   []Point
	Diverged string // non-empty if a forced choice was out of range (replay divergence)
}

// NewCtx returns a context that forces the given choices and then defaults to 0.
func NewCtx(prefix []int) *Ctx { return &Ctx{prefix: prefix} }

// Choose answers one choice point. costs may be nil (every non-default alternative costs 1).
func (c *Ctx) Choose(kind, label string, n int, costs []int) int {
	if n <= 0 {
		panic("vsched: choice point without alternatives")
	}
	i := len(c.Points)
	ch := 0
	if i < len(c.prefix) {
		ch = c.prefix[i]
		if ch >= n {
			if c.Diverged == "" {
				c.Diverged = fmt.Sprintf("point %d (%s %s): forced choice %d but only %d alternatives", i, kind, label, ch, n)
			}
			ch = 0
		}
	}
	if costs == nil {
		costs = make([]int, n)
		for k := 1; k < n; k++ {
			costs[k] = 1
		}
	}
	c.Points = append(c.Points, Point{Kind: kind, N: n, Chosen: ch, Costs: costs, Label: label})
	return ch
}

// Prefix returns the forced choices of this execution (enough to replay it: later points default to 0).
func (c *Ctx) Prefix() []int { return append([]int(nil), c.prefix...) }

// Choices returns the choice vector of the execution so far.
func (c *Ctx) Choices() []int {
	out := make([]int, len(c.Points))
	for i, p := range c.Points {
		out[i] = p.Chosen
	}
	return out
}

// TrimmedChoices returns the choice vector without trailing defaults.
func (c *Ctx) TrimmedChoices() []int {
	ch := c.Choices()
	n := len(ch)
	for n > 0 && ch[n-1] == 0 {
		n--
	}
	return ch[:n]
}

// Stats summarises an exploration.
type Stats struct {
	Executions  int64
	Points      int64 // choice points executed (transitions)
	MaxPoints   int
	Deviating   int64 // executions with >= 1 non-default choice
	Bound       int   // deviation bound completed (-1 = unbounded)
	Capped      bool
	Divergences int64
}

// Explore runs body for every choice vector whose total deviation cost is <= bound
// (bound < 0: all of them). body must be deterministic given the choices. visit is called
// after each execution; returning false stops the search (Capped is then set).
func Explore(bound int, maxExecs int64, body func(c *Ctx), visit func(c *Ctx) bool) Stats {
	st := Stats{Bound: bound}
	stack := [][]int{nil}
	for len(stack) > 0 {
		prefix := stack[len(stack)-1]
		stack = stack[:len(stack)-1]
		c := NewCtx(prefix)
		body(c)
		st.Executions++
		st.Points += int64(len(c.Points))
		if len(c.Points) > st.MaxPoints {
			st.MaxPoints = len(c.Points)
		}
		if c.Diverged != "" {
			st.Divergences++
		}
		dev := false
		for _, p := range c.Points {
			if p.Chosen != 0 {
				dev = true
				break
			}
		}
		if dev {
			st.Deviating++
		}
		if !visit(c) {
			st.Capped = true
			return st
		}
		if maxExecs > 0 && st.Executions >= maxExecs {
			st.Capped = len(stack) > 0 || hasAlternatives(c, len(prefix), bound)
			return st
		}
		// cost spent by the forced prefix
		used := 0
		for i := 0; i < len(prefix) && i < len(c.Points); i++ {
			used += c.Points[i].Costs[c.Points[i].Chosen]
		}
		// Branch on every later point (in reverse so that the DFS visits earlier deviations first).
		for i := len(c.Points) - 1; i >= len(prefix); i-- {
			p := c.Points[i]
			for alt := p.N - 1; alt >= 1; alt-- {
				if bound >= 0 && used+p.Costs[alt] > bound {
					continue
				}
				np := make([]int, i+1)
				for k := 0; k < i; k++ {
					np[k] = c.Points[k].Chosen
				}
				np[i] = alt
				stack = append(stack, np)
			}
		}
	}
	return st
}

func hasAlternatives(c *Ctx, from, bound int) bool {
	for i := from; i < len(c.Points); i++ {
		if c.Points[i].N > 1 {
			return true
		}
	}
	return false
}
