//go:build verif

package vsched

import (
	"fmt"
	"sync/atomic"
)

// Sched is a cooperative scheduler: controlled threads are real goroutines, but exactly one
// runs at a time; every scheduling point asks the Ctx which enabled thread continues.
type Sched struct {
	ctx      *Ctx
	threads  []*thread
	cur      *thread
	Deadlock string
	Panics   []string
	// Trace of (thread id, label) in execution order, for evidence.
	Trace []string
	// Preemptions counts switches away from a still-enabled thread.
	Preemptions int
}

type thread struct {
	id       int
	wake     chan struct{}
	done     bool
	blocked  func() bool // nil = runnable; otherwise runnable when it returns true
	started  bool
	fn       func()
	finished chan struct{}
}

var active atomic.Pointer[Sched]

// Active returns the scheduler controlling this process right now (nil if none).
func Active() *Sched { return active.Load() }

// RunMain runs body as thread 0 under a fresh scheduler driven by ctx.
// When body returns, every other thread is run to completion.
func RunMain(ctx *Ctx, body func()) *Sched {
	s := &Sched{ctx: ctx}
	t0 := &thread{id: 0, wake: make(chan struct{}, 1), started: true, finished: make(chan struct{})}
	s.threads = append(s.threads, t0)
	s.cur = t0
	active.Store(s)
	defer active.Store(nil)
	func() {
		defer func() {
			if p := recover(); p != nil {
				if _, ok := p.(deadlockAbort); ok {
					return
				}
				s.Panics = append(s.Panics, fmt.Sprintf("thread 0: %v", p))
			}
		}()
		body()
	}()
	// Drain: let the remaining threads finish.
	for s.Deadlock == "" {
		pending := false
		for _, t := range s.threads[1:] {
			if !t.done {
				pending = true
			}
		}
		if !pending {
			break
		}
		t0.blocked = func() bool {
			for _, t := range s.threads[1:] {
				if !t.done {
					return false
				}
			}
			return true
		}
		func() {
			defer func() {
				if p := recover(); p != nil {
					if _, ok := p.(deadlockAbort); !ok {
						panic(p)
					}
				}
			}()
			s.Yield("drain")
		}()
		t0.blocked = nil
	}
	t0.done = true
	return s
}

type deadlockAbort struct{}

// Spawn registers a new controlled thread running fn. It is a scheduling point.
func (s *Sched) Spawn(fn func()) {
	t := &thread{id: len(s.threads), wake: make(chan struct{}, 1), fn: fn, finished: make(chan struct{})}
	s.threads = append(s.threads, t)
	s.Yield("spawn")
}

// ThreadID returns the id of the running thread.
func (s *Sched) ThreadID() int { return s.cur.id }

// BlockUntil parks the running thread until cond() holds (evaluated at scheduling points).
func (s *Sched) BlockUntil(label string, cond func() bool) {
	me := s.cur
	me.blocked = cond
	s.Yield(label)
	me.blocked = nil
}

func (t *thread) enabled() bool {
	if t.done {
		return false
	}
	return t.blocked == nil || t.blocked()
}

// Yield is a scheduling point: the explorer decides which enabled thread continues.
func (s *Sched) Yield(label string) {
	me := s.cur
	var en []*thread
	if me.enabled() {
		en = append(en, me)
	}
	for _, t := range s.threads {
		if t != me && t.enabled() {
			en = append(en, t)
		}
	}
	if len(en) == 0 {
		unfinished := 0
		for _, t := range s.threads {
			if !t.done {
				unfinished++
			}
		}
		if unfinished > 0 {
			s.Deadlock = fmt.Sprintf("no enabled thread at %q, %d unfinished", label, unfinished)
			panic(deadlockAbort{})
		}
		return
	}
	costs := make([]int, len(en))
	if en[0] == me {
		for k := 1; k < len(en); k++ {
			costs[k] = 1 // switching away from a runnable thread is a preemption
		}
	}
	pick := 0
	if len(en) > 1 {
		pick = s.ctx.Choose("THREAD", fmt.Sprintf("t%d@%s", me.id, label), len(en), costs)
	}
	next := en[pick]
	if costs[pick] > 0 {
		s.Preemptions++
	}
	if len(s.Trace) < 256 {
		s.Trace = append(s.Trace, fmt.Sprintf("t%d@%s->t%d", me.id, label, next.id))
	}
	if next == me {
		return
	}
	s.cur = next
	s.resume(next)
	if me.done {
		return
	}
	<-me.wake
	if s.Deadlock != "" {
		if me.id == 0 {
			panic(deadlockAbort{})
		}
		// Abandoned execution: park forever (the process reports the deadlock and exits).
		select {}
	}
}

func (s *Sched) resume(t *thread) {
	if t.started {
		t.wake <- struct{}{}
		return
	}
	t.started = true
	go func() {
		abandon := func() {
			// wake thread 0 so that RunMain can unwind, then park forever
			s.cur = s.threads[0]
			s.threads[0].wake <- struct{}{}
			select {}
		}
		dead := false
		func() {
			defer func() {
				if p := recover(); p != nil {
					if _, ok := p.(deadlockAbort); ok {
						dead = true
						return
					}
					s.Panics = append(s.Panics, fmt.Sprintf("thread %d: %v", t.id, p))
				}
			}()
			t.fn()
		}()
		if dead {
			abandon()
		}
		t.done = true
		close(t.finished)
		func() {
			defer func() {
				if p := recover(); p != nil {
					if _, ok := p.(deadlockAbort); ok {
						dead = true
						return
					}
					panic(p)
				}
			}()
			s.Yield("exit")
		}()
		if dead {
			abandon()
		}
	}()
}

// QuiescentExcept reports whether every thread other than those selected by skip is done or
// not enabled. It is meant for use inside BlockUntil conditions of the skipped threads.
func (s *Sched) QuiescentExcept(skip func(threadID int) bool) bool {
	for _, t := range s.threads {
		if t.done || skip(t.id) {
			continue
		}
		if t.enabled() {
			return false
		}
	}
	return true
}
