//go:build verif

// Package fakedocker is a fake Docker API client (the daemon is the repository's only I/O):
// its answers, read fragmentation, faults and scheduling points are decided by the harness.
package fakedocker

import (
	"context"
	"encoding/binary"
	"errors"
	"io"
	"strconv"
	"strings"
	"sync"
	"time"

	"github.com/docker/docker/api/types"
	apicontainer "github.com/docker/docker/api/types/container"
	"github.com/docker/docker/client"
)

// Stream types of Docker's multiplexed framing.
const (
	Stdin     = 0
	Stdout    = 1
	Stderr    = 2
	Systemerr = 3
)

// Rec is one log record as the daemon would send it.
type Rec struct {
	Stream byte   `json:"stream"`
	TS     string `json:"ts"` // RFC3339Nano text as written on the wire
	Msg    string `json:"msg"`
}

// Frame encodes one stdcopy frame.
func Frame(stream byte, payload []byte) []byte {
	out := make([]byte, 8+len(payload))
	out[0] = stream
	binary.BigEndian.PutUint32(out[4:8], uint32(len(payload)))
	copy(out[8:], payload)
	return out
}

// Encode encodes records the way `docker logs --timestamps` streams them.
func Encode(recs []Rec) []byte {
	var out []byte
	for _, r := range recs {
		out = append(out, Frame(r.Stream, []byte(r.TS+" "+r.Msg))...)
	}
	return out
}

// TS formats a nanosecond timestamp as the daemon does.
func TS(ns int64) string { return time.Unix(0, ns).UTC().Format(time.RFC3339Nano) }

// Container is one fake container.
type Container struct {
	ID      string
	Name    string   // with leading slash, as the API returns it
	Names   []string // when set, used instead of Name (several names / none)
	Image   string
	ImageID string
	Command string
	Created int64
	Status  string
	State   string
	Labels  map[string]string
	Log     []byte
	OpenErr error
	// CloseErr is what Close of this container's reader returns (the reader still counts as closed).
	CloseErr error
}

// LogCall records one ContainerLogs call.
type LogCall struct {
	ID      string
	Options apicontainer.LogsOptions
}

// ReadPlan decides what one Read returns: n bytes (0 < n <= max unless err != nil or a stall).
// pos is the offset in the stream, max = min(len(p), remaining).
type ReadPlan func(ctr int, pos, max int) (n int, err error)

// ErrInjected is the fault the harness injects.
var ErrInjected = errors.New("verif: injected fault")

// Fake implements the two client.APIClient methods the repository uses.
type Fake struct {
	client.APIClient // nil: any other method panics, which is what we want to notice

	Containers []Container
	ListErr    error
	Plan       ReadPlan
	// HonourWindow: like the daemon, answer a log request with the frames whose timestamp lies in [since, until] of
	// its options only (unix seconds, optional fraction); off: the whole log whatever was asked.
	HonourWindow bool
	// Yield, when set, is called at every call entry and return (scheduling point).
	Yield func(label string)

	mu        sync.Mutex // guards the records below when the harness runs free (race pass)
	ListCalls int
	ListOpts  []apicontainer.ListOptions
	Calls     []LogCall
	Opened    []int // per container
	Closed    []int // per container
	ReadBytes []int // per container: bytes handed out
	OpenOrder []int // container indexes in the order ContainerLogs was entered
}

// New returns a fake client over the given containers.
func New(ctrs []Container) *Fake {
	return &Fake{
		Containers: ctrs,
		Opened:     make([]int, len(ctrs)),
		Closed:     make([]int, len(ctrs)),
		ReadBytes:  make([]int, len(ctrs)),
	}
}

func (f *Fake) yield(label string) {
	if f.Yield != nil {
		f.Yield(label)
	}
}

// listed applies the options the way the daemon does: without All only running containers; filters name, id,
// status, ancestor (any of the values) and label (all of the values, each `key` or `key=value`, on the raw
// Docker label keys); any other filter key is an error, as with dockerd.
func (f *Fake) listed(c Container, opts apicontainer.ListOptions) (bool, error) {
	if !opts.All && c.State != "running" {
		return false, nil
	}
	names := []string{c.Name}
	if c.Names != nil {
		names = c.Names
	}
	for _, key := range opts.Filters.Keys() {
		vals := opts.Filters.Get(key)
		any := func(pred func(v string) bool) bool {
			for _, v := range vals {
				if pred(v) {
					return true
				}
			}
			return false
		}
		switch key {
		case "label":
			for _, v := range vals {
				k, want, hasVal := strings.Cut(v, "=")
				got, ok := c.Labels[k]
				if !ok || (hasVal && got != want) {
					return false, nil
				}
			}
		case "name":
			if !any(func(v string) bool {
				for _, n := range names {
					if strings.Contains(strings.TrimPrefix(n, "/"), strings.TrimPrefix(v, "/")) {
						return true
					}
				}
				return false
			}) {
				return false, nil
			}
		case "id":
			if !any(func(v string) bool { return strings.HasPrefix(c.ID, v) }) {
				return false, nil
			}
		case "status":
			if !any(func(v string) bool { return c.State == v }) {
				return false, nil
			}
		case "ancestor":
			if !any(func(v string) bool { return c.Image == v || c.ImageID == v }) {
				return false, nil
			}
		default:
			return false, errors.New("verif: invalid filter '" + key + "'")
		}
	}
	return true, nil
}

// ContainerList implements client.APIClient.
func (f *Fake) ContainerList(ctx context.Context, opts apicontainer.ListOptions) ([]types.Container, error) {
	f.yield("list")
	if err := ctx.Err(); err != nil {
		return nil, err // the real client fails a request whose context is done
	}
	f.mu.Lock()
	f.ListCalls++
	f.ListOpts = append(f.ListOpts, opts)
	f.mu.Unlock()
	if f.ListErr != nil {
		return nil, f.ListErr
	}
	out := make([]types.Container, 0, len(f.Containers))
	for _, c := range f.Containers {
		ok, err := f.listed(c, opts)
		if err != nil {
			return nil, err
		}
		if !ok {
			continue
		}
		names := []string{c.Name}
		if c.Names != nil {
			names = c.Names
		}
		out = append(out, types.Container{
			ID:      c.ID,
			Names:   names,
			Image:   c.Image,
			ImageID: c.ImageID,
			Command: c.Command,
			Created: c.Created,
			Status:  c.Status,
			State:   c.State,
			Labels:  c.Labels,
		})
	}
	return out, nil
}

// ContainerLogs implements client.APIClient.
func (f *Fake) ContainerLogs(ctx context.Context, id string, opts apicontainer.LogsOptions) (io.ReadCloser, error) {
	idx := -1
	for i, c := range f.Containers {
		if c.ID == id {
			idx = i
			break
		}
	}
	f.yield("logs-enter:" + id)
	f.mu.Lock()
	f.Calls = append(f.Calls, LogCall{ID: id, Options: opts})
	f.OpenOrder = append(f.OpenOrder, idx)
	f.mu.Unlock()
	if idx < 0 {
		f.yield("logs-return:" + id)
		return nil, errors.New("verif: no such container " + id)
	}
	c := f.Containers[idx]
	if c.OpenErr != nil {
		f.yield("logs-return:" + id)
		return nil, c.OpenErr
	}
	f.mu.Lock()
	f.Opened[idx]++
	f.mu.Unlock()
	data := c.Log
	if f.HonourWindow {
		data = filterWindow(data, opts.Since, opts.Until)
	}
	rd := &reader{f: f, idx: idx, data: data, ctx: ctx}
	f.yield("logs-return:" + id)
	return rd, nil
}

// unixOpt parses a since/until option ("", "1700000000", "1700000000.5").
func unixOpt(v string, def int64) int64 {
	if v == "" {
		return def
	}
	secs, frac, _ := strings.Cut(v, ".")
	n, err := strconv.ParseInt(secs, 10, 64)
	if err != nil {
		return def
	}
	ns := n * 1e9
	if frac != "" {
		frac = (frac + "000000000")[:9]
		if fn, err := strconv.ParseInt(frac, 10, 64); err == nil {
			ns += fn
		}
	}
	return ns
}

// filterWindow keeps the well-formed frames inside the window; from the first frame it cannot read on, the log is
// passed through unchanged.
func filterWindow(log []byte, since, until string) []byte {
	lo, hi := unixOpt(since, -1<<62), unixOpt(until, 1<<62)
	var out []byte
	for pos := 0; pos < len(log); {
		if len(log)-pos < 8 {
			return append(out, log[pos:]...)
		}
		size := int(binary.BigEndian.Uint32(log[pos+4 : pos+8]))
		if size > len(log)-pos-8 {
			return append(out, log[pos:]...)
		}
		payload := log[pos+8 : pos+8+size]
		stamp, _, ok := strings.Cut(string(payload), " ")
		t, err := time.Parse(time.RFC3339Nano, stamp)
		if !ok || err != nil {
			return append(out, log[pos:]...)
		}
		if ns := t.UnixNano(); ns >= lo && ns <= hi {
			out = append(out, log[pos:pos+8+size]...)
		}
		pos += 8 + size
	}
	return out
}

type reader struct {
	ctx    context.Context // the response body of the real client dies with the request context
	f      *Fake
	idx    int
	data   []byte
	pos    int
	closed bool
}

func (r *reader) Read(p []byte) (int, error) {
	if len(p) == 0 {
		return 0, nil
	}
	if r.ctx != nil {
		if err := r.ctx.Err(); err != nil {
			return 0, err
		}
	}
	rem := len(r.data) - r.pos
	max := len(p)
	if rem < max {
		max = rem
	}
	n, err := max, error(nil)
	if r.f.Plan != nil {
		n, err = r.f.Plan(r.idx, r.pos, max)
		if n > max {
			n = max
		}
	}
	if n > 0 {
		copy(p, r.data[r.pos:r.pos+n])
		r.pos += n
		r.f.mu.Lock()
		r.f.ReadBytes[r.idx] += n
		r.f.mu.Unlock()
	}
	if err != nil {
		return n, err
	}
	if n == 0 && rem == 0 {
		return 0, io.EOF
	}
	return n, nil
}

func (r *reader) Close() error {
	if !r.closed {
		r.closed = true
	}
	r.f.mu.Lock()
	r.f.Closed[r.idx]++
	r.f.mu.Unlock()
	return r.f.Containers[r.idx].CloseErr
}
