#!/usr/bin/env python3
"""Fill the generated tables of DESIGN.md (mutant summary, seeded table) from evidence/*.mutants.json and seeded/*/meta.json."""
import glob, json, os, re, subprocess
p = "/verif/DESIGN.md"
s = open(p).read()
rows = []
tot = caught = green = 0
for f in sorted(glob.glob("/verif/evidence/*.mutants.json")):
    pid = os.path.basename(f).split(".")[0]
    ms = json.load(open(f))
    tot += len(ms); caught += sum(1 for m in ms if m["caught"]); green += sum(1 for m in ms if m.get("suite_passes"))
    rows.append(f"| {pid} | {len(ms)} | {sum(1 for m in ms if m['caught'])} | {sum(1 for m in ms if m.get('suite_passes'))} | " + ", ".join(m["mutant"] for m in ms) + " |")
msum = f"{tot} mutants over {len(rows)} properties; {caught} caught by the quick tier of their check; {green} leave the repository's own suite green.\n\n| property | mutants | caught | suite still green | names |\n|---|---|---|---|---|\n" + "\n".join(rows)
s = re.sub(r"<!-- MUTANT-SUMMARY-BEGIN -->.*?<!-- MUTANT-SUMMARY-END -->", "<!-- MUTANT-SUMMARY-BEGIN -->\n" + msum.replace("\\", "\\\\") + "\n<!-- MUTANT-SUMMARY-END -->", s, flags=re.S)
table = subprocess.run(["python3", "/verif/tools/gen_seed_table.py"], capture_output=True, text=True).stdout
s = re.sub(r"<!-- SEEDED-TABLE-BEGIN -->.*?<!-- SEEDED-TABLE-END -->", lambda m: "<!-- SEEDED-TABLE-BEGIN -->\n" + table + "<!-- SEEDED-TABLE-END -->", s, flags=re.S)
open(p, "w").write(s)
print("ok")
