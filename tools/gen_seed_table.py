#!/usr/bin/env python3
"""Print the markdown table of seeded changes (from seeded/*/meta.json and patch.diff) for DESIGN.md section 8.2."""
import json, os, re
root = "/verif/seeded"
DESC = json.load(open("/verif/tools/seed_descriptions.json"))
rows = []
for n in sorted(os.listdir(root), key=lambda s: (s.split("-")[0], int(s.split("-")[1]))):
    d = os.path.join(root, n)
    m = json.load(open(os.path.join(d, "meta.json")))
    patch = open(os.path.join(d, "patch.diff")).read()
    files = sorted(set(re.findall(r"^\+\+\+ b/(\S+)", patch, re.M)))
    files = [f.replace("internal/logql/logqlengine/", "…engine/").replace("internal/", "") for f in files]
    what = m.get("what") or DESC.get(n, "")
    rows.append(f"| {n} | {m['property']} | {', '.join(files)} | {what} | {', '.join(m.get('caught_by', [])) or '—'} | {'yes' if m.get('confirmed', {}).get('confirmed') else 'NO'} |")
print("| seed | property | files touched | change (needs to manifest) | caught by (quick tier) | confirmed |")
print("|---|---|---|---|---|---|")
print("\n".join(rows))
