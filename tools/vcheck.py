#!/usr/bin/env python3
"""vcheck: run one property check.

  vcheck <ID> [--tier quick|thorough]     rebuild the harness from /repo's working tree, fan out to
                                          worker processes, merge, write evidence/<ID>.json
  vcheck replay <path>                    re-execute one recorded violation without the explorer

exit 0: property held on everything explored (KNOWN-FINDING lines may be printed)
exit 1: VIOLATION property=<id> replay=<path>
exit 2: harness error (never a verdict)
"""
import hashlib
import json
import os
import subprocess
import sys
import time

HERE = os.path.dirname(os.path.abspath(__file__))
VERIF = os.path.dirname(HERE)
sys.path.insert(0, HERE)
import vbuild  # noqa: E402

CACHE = os.path.join(VERIF, ".cache")
WORK = os.environ.get("VERIF_WORK", CACHE)  # per-invocation scratch root (vmutants sets it)
CHECKS = json.load(open(os.path.join(HERE, "checks.json")))
NPROC = int(os.environ.get("VERIF_NPROC", "16"))


def known_findings():
    p = os.path.join(VERIF, "known_findings.json")
    if not os.path.exists(p):
        return []
    return json.load(open(p))


def build_for(prop, cfg, extra_replace=None, outdir=None):
    outdir = outdir or os.path.join(WORK, "bin", prop)
    binp = os.path.join(outdir, cfg["harness"])
    info = vbuild.build(cfg["harness"], binp, seam=cfg.get("seam", False), test=cfg.get("test", False),
                        extra_replace=extra_replace)
    return binp, info


def worker_cmd(cfg, binp, args):
    if cfg.get("test"):
        # package-main test binary: arguments go through the environment
        return [binp, "-test.run", "^TestVerifWorker$", "-test.count=1", "-test.timeout=0"], {"VERIF_ARGS": json.dumps(args)}
    return [binp] + args, {}


def run_workers(prop, cfg, binp, tier, seed, known_ids, outdir, maprot=0):
    os.makedirs(outdir, exist_ok=True)
    nsh = cfg.get("shards", NPROC)
    budget = cfg.get("budget_" + tier, 0)
    procs = []
    for k in range(nsh):
        out = os.path.join(outdir, f"shard{k}.json")
        if os.path.exists(out):
            os.remove(out)
        args = ["-prop", prop, "-tier", tier, "-shard", str(k), "-nshards", str(nsh), "-out", out,
                "-known", ",".join(known_ids), "-seed", str(seed), "-maprot", str(maprot)]
        if budget:
            args += ["-budget", f"{budget}s"]
        cmd, envx = worker_cmd(cfg, binp, args)
        env = dict(os.environ)
        env.update(envx)
        env.update(TZ="UTC", GOMAXPROCS=str(cfg.get("gomaxprocs", 2)), GOTRACEBACK="single")
        log = open(os.path.join(outdir, f"shard{k}.log"), "w")
        # memory guard: a runaway worker must not take the sandbox down
        pre = f"ulimit -v {cfg.get('ulimit_kb', 8 * 1024 * 1024)}; exec \"$@\""
        p = subprocess.Popen(["bash", "-c", pre, "w"] + cmd, env=env, stdout=log, stderr=subprocess.STDOUT, cwd=VERIF)
        procs.append((k, p, out, log))
    hard = cfg.get("hard_timeout_" + tier, 3600 if tier == "quick" else 6 * 3600)
    t0 = time.time()
    results, errors, crashes = [], [], []
    for k, p, out, log in procs:
        try:
            rc = p.wait(timeout=max(1, hard - (time.time() - t0)))
        except subprocess.TimeoutExpired:
            p.kill()
            rc = -9
        log.close()
        if rc in (0, 1) and os.path.exists(out):
            results.append(json.load(open(out)))
        elif rc == 2 and os.path.exists(out):
            r = json.load(open(out))
            errors.append(f"shard {k}: harness error: {r.get('harness_error')}")
        else:
            tail = open(os.path.join(outdir, f"shard{k}.log")).read()[-3000:]
            errors.append(f"shard {k}: worker exited with {rc}\n{tail}")
            j = out + ".journal"
            if os.path.exists(j):
                try:
                    v = json.load(open(j))
                    v["observed"] = "worker process died (exit %s): %s" % (rc, tail[:1500])
                    v["expected"] = "evaluation returns a result or an error"
                    crashes.append(v)
                except ValueError:
                    pass
    return results, errors, crashes


def merge(results):
    m = {"evaluations": 0, "distinct_nontrivial": 0, "states": 0, "transitions": 0,
         "traces_validated_against_impl": 0, "exhaustive": True, "caps": [], "samples": [],
         "violations": [], "n_violations": 0, "known": {}, "counters": {}, "notes": {}, "wall_s": 0.0}
    for r in results:
        for k in ("evaluations", "distinct_nontrivial", "states", "transitions", "traces_validated_against_impl", "n_violations"):
            m[k] += r.get(k) or 0
        m["exhaustive"] = m["exhaustive"] and bool(r.get("exhaustive"))
        for c in r.get("caps") or []:
            if c not in m["caps"]:
                m["caps"].append(c)
        m["samples"] += (r.get("samples") or [])[:2]
        m["violations"] += r.get("violations") or []
        for fid, hit in (r.get("known") or {}).items():
            cur = m["known"].setdefault(fid, {"count": 0, "example": hit.get("example")})
            cur["count"] += hit.get("count", 0)
        for k, v in (r.get("counters") or {}).items():
            if k.startswith("max_"):
                m["counters"][k] = max(m["counters"].get(k, 0), v)
            else:
                m["counters"][k] = m["counters"].get(k, 0) + v
        m["notes"].update(r.get("notes") or {})
        m["wall_s"] = max(m["wall_s"], r.get("wall_s") or 0.0)
    m["samples"] = m["samples"][:8]
    return m


def write_replay(prop, v):
    d = os.path.join(os.environ.get("VERIF_REPLAY_DIR", os.path.join(VERIF, "replays")), prop)
    os.makedirs(d, exist_ok=True)
    blob = json.dumps(v, sort_keys=True, indent=1)
    h = hashlib.sha1(blob.encode()).hexdigest()[:12]
    p = os.path.join(d, h + ".json")
    open(p, "w").write(blob)
    return p


def shard_rerun(prop, cfg, binp, v, known_ids, out):
    """Re-run the shard a violation was found in; True if the same case violates again."""
    if v.get("nshards") in (None, 0):
        return False
    if os.path.exists(out):
        os.remove(out)
    args = ["-prop", prop, "-tier", v.get("tier") or "quick", "-shard", str(v.get("shard", 0)), "-nshards", str(v["nshards"]),
            "-out", out, "-known", ",".join(known_ids), "-seed", str(v.get("seed", 0)), "-maprot", str(v.get("map_rot", 0))]
    cmd, envx = worker_cmd(cfg, binp, args)
    env = dict(os.environ)
    env.update(envx)
    env.update(TZ="UTC", GOMAXPROCS=str(cfg.get("gomaxprocs", 2)))
    try:
        subprocess.run(cmd, env=env, capture_output=True, text=True, cwd=VERIF, timeout=3600)
    except subprocess.TimeoutExpired:
        return False
    if not os.path.exists(out):
        return False
    res = json.load(open(out))
    return any(x.get("input") == v.get("input") and x.get("check") == v.get("check") for x in res.get("violations") or [])


def replay_twice(cfg, binp, path):
    outs = []
    for _ in range(2):
        cmd, envx = worker_cmd(cfg, binp, ["-replay", path])
        env = dict(os.environ)
        env.update(envx)
        env.update(TZ="UTC")
        p = subprocess.run(cmd, env=env, capture_output=True, text=True, cwd=VERIF, timeout=600)
        outs.append((p.returncode, p.stdout))
    return outs


def race_pass(prop, cfg, tier, outdir):
    """Separate free-running pass: same harness bodies, -race build, no scheduler, no runtime seam."""
    binp = os.path.join(WORK, "bin", prop, "race_" + cfg["harness"])
    try:
        vbuild.build(cfg["harness"], binp, seam=False, race=True, test=cfg.get("test", False))
    except vbuild.BuildError as e:
        return {"error": "build: " + str(e)[-500:]}
    out = os.path.join(outdir, "race.json")
    if os.path.exists(out):
        os.remove(out)
    cmd, envx = worker_cmd(cfg, binp, ["-prop", prop + "RACE", "-tier", tier, "-out", out])
    env = dict(os.environ)
    env.update(envx)
    env.update(TZ="UTC", GORACE="halt_on_error=0 exitcode=66")
    p = subprocess.run(cmd, env=env, capture_output=True, text=True, cwd=VERIF, timeout=3600)
    text = p.stdout + p.stderr
    races = text.count("WARNING: DATA RACE")
    info = {"races": races, "report": text[-6000:] if races else "", "rc": p.returncode}
    if os.path.exists(out):
        r = json.load(open(out))
        info["iterations"] = r.get("evaluations", 0)
    elif not races:
        info["error"] = "race worker produced no result: " + text[-500:]
    return info


def validate_evidence(ev):
    req = ["property_id", "tier", "seed", "level", "coverage", "wall_s"]
    for k in req:
        if k not in ev:
            raise ValueError(f"evidence lacks {k}")
    cov = ev["coverage"]
    if ev["level"] == "model_checking":
        for k in ("states", "transitions", "traces_validated_against_impl", "samples"):
            if k not in cov:
                raise ValueError(f"coverage lacks {k}")
        if cov["states"] < 1 or cov["transitions"] < 1 or not cov["samples"]:
            raise ValueError("coverage counts too small for model_checking")
    else:
        for k in ("evaluations", "distinct_nontrivial", "rule", "samples"):
            if k not in cov:
                raise ValueError(f"coverage lacks {k}")
        if cov["evaluations"] < 1 or cov["distinct_nontrivial"] < 2 or not cov["samples"]:
            raise ValueError("coverage counts too small")


def main():
    if len(sys.argv) >= 3 and sys.argv[1] == "replay":
        path = os.path.abspath(sys.argv[2])
        v = json.load(open(path))
        prop = v["property"]
        cfg = CHECKS[prop]
        try:
            binp, _ = build_for(prop, cfg)
        except vbuild.BuildError as e:
            print("HARNESS-BUILD-ERROR\n" + str(e))
            sys.exit(2)
        if v.get("history"):
            ok = shard_rerun(prop, cfg, binp, v, [], os.path.join(CACHE, "replay_rerun.json"))
            print("REPLAY (shard re-run %s/%s): %s" % (v.get("shard"), v.get("nshards"), "violation reproduced" if ok else "no violation reproduced"))
            print(json.dumps({k: v.get(k) for k in ("check", "input", "observed", "expected", "explanation")}, indent=1)[:3000])
            sys.exit(1 if ok else 0)
        cmd, envx = worker_cmd(cfg, binp, ["-replay", path])
        env = dict(os.environ)
        env.update(envx)
        env.update(TZ="UTC")
        sys.exit(subprocess.run(cmd, env=env, cwd=VERIF).returncode)

    import argparse
    ap = argparse.ArgumentParser()
    ap.add_argument("prop")
    ap.add_argument("--tier", default=os.environ.get("VERIF_TIER", "quick"))
    ap.add_argument("--no-evidence", action="store_true")
    a = ap.parse_args()
    prop, tier = a.prop, a.tier
    if tier not in ("quick", "thorough"):
        tier = "quick"
    try:
        seed = int(os.environ.get("VERIF_SEED", "0"))
    except ValueError:
        seed = 0
    cfg = CHECKS[prop]
    t0 = time.time()

    kf = [k for k in known_findings() if k.get("property") == prop]
    known_ids = [k["id"] for k in kf if k.get("status") == "known"]

    try:
        binp, binfo = build_for(prop, cfg)
    except vbuild.BuildError as e:
        print("HARNESS-BUILD-ERROR (the harness does not compile against the current tree; not a verdict)")
        print(str(e)[-6000:])
        sys.exit(2)

    outdir = os.path.join(WORK, "out", prop, tier)
    # Hash-map iteration order is not left to the runtime: outside the explorations that enumerate it, every map
    # iteration takes one fixed order, chosen by the seed (0 = canonical). The thorough tier repeats the checks
    # that do not enumerate map orders themselves under a second fixed order.
    maprot = seed % 4
    results, errors, crashes = run_workers(prop, cfg, binp, tier, seed, known_ids, outdir, maprot)
    maprots = [maprot]
    if tier == "thorough" and cfg.get("second_map_order"):
        r2, e2, c2 = run_workers(prop, cfg, binp, tier, seed, known_ids, os.path.join(outdir, "rot"), maprot + 1)
        states_once = merge(results)["states"]
        results, errors, crashes = results + r2, errors + e2, crashes + c2
        maprots.append(maprot + 1)
    m = merge(results)
    if len(maprots) > 1:
        m["states"] = states_once  # the second pass visits the same states under another map order
    m["notes"]["fixed_map_iteration_orders"] = ",".join(str(x) for x in maprots)
    # a worker killed by a fatal runtime error while executing a journaled case: believed only if the
    # case kills a fresh process again, twice
    for v in crashes:
        path = write_replay(prop, v)
        outs = replay_twice(cfg, binp, path)
        if all(o[0] not in (0, 1) or "REPLAY: violation reproduced" in o[1] for o in outs):
            m["violations"].append(v)
            m["n_violations"] += 1
            m["crash_replays"] = m.get("crash_replays", 0) + 1
        else:
            os.remove(path)
    if errors and not results and not m["violations"]:
        print("HARNESS-ERROR: no worker produced a result")
        for e in errors:
            print(e)
        sys.exit(2)

    # An isolated worker crash is classified by the harness itself where it matters (C17 runs its
    # own watchdog); here it means part of the space was not explored.
    if errors:
        m["exhaustive"] = False
        m["caps"].append(f"{len(errors)} worker(s) failed: " + errors[0].splitlines()[0])

    rc = 0
    lines = []
    history_note = None
    viol_paths = []
    race_path = None
    race_info = None
    if cfg.get("race_pass"):
        race_info = race_pass(prop, cfg, tier, outdir)
        if race_info.get("error"):
            m["exhaustive"] = False
            m["caps"].append("race pass did not run: " + race_info["error"][:200])
        elif race_info["races"] > 0:
            m["n_violations"] += 1
            rp = os.path.join(os.environ.get("VERIF_REPLAY_DIR", os.path.join(VERIF, "replays")), prop)
            os.makedirs(rp, exist_ok=True)
            path = os.path.join(rp, "race_report.txt")
            open(path, "w").write(race_info["report"])
            race_path = path
            lines.append("data race reported by the free-running -race pass:\n" + race_info["report"][:1500])
    for v in m["violations"]:
        viol_paths.append(write_replay(prop, v))
    if m["violations"] and not m.get("crash_replays") and "Replay" not in cfg.get("skip", []):  # (race reports have no replay)
        outs = replay_twice(cfg, binp, viol_paths[0])
        flaky_note = None
        if outs[0] != outs[1] and cfg.get("nondeterminism_is_violation"):
            # The property itself is "same input, same answer". If the recorded execution does not replay identically
            # although every choice the harness owns is fixed, the implementation has a source of nondeterminism the
            # harness does not own (goroutines started outside errgroup, real time, randomness). That is believed only
            # if the recorded case violates again in at least one of five fresh processes.
            more = outs + replay_twice(cfg, binp, viol_paths[0]) + replay_twice(cfg, binp, viol_paths[0])[:1]
            hits = sum(1 for o in more if o[0] == 1)
            if hits >= 1:
                flaky_note = ("the recorded execution violates in %d of %d fresh replays with every harness-owned choice fixed: "
                              "the implementation carries nondeterminism outside the controlled scheduler" % (hits, len(more)))
                outs = [o for o in more if o[0] == 1][:1] * 2
        if outs[0] != outs[1] and outs[0][0] == 1 and outs[1][0] == 1:
            # violated in both fresh processes; only the reported observation differs (e.g. which of several wrong
            # results a free goroutine produced)
            flaky_note = flaky_note or "the recorded case violates again in both fresh replays, with different observed values"
            outs = [outs[0], outs[0]]
        if outs[0] != outs[1] and race_path:
            # the exploration's violation does not replay, but the free-running pass has a race report of its own: that
            # is the verdict; the unreproducible violation is only mentioned
            lines.append("(a violation found by the exploration did not replay identically and is not reported; the data race above most likely explains it)")
            for pth in viol_paths:
                os.remove(pth)
            viol_paths, m["violations"] = [], []
            outs = [(1, ""), (1, "")]
        if outs[0] != outs[1]:
            print("HARNESS-ERROR: replaying the first violation twice gave different observations; not reported as a verdict")
            print(outs[0][1][-2000:], "\n----\n", outs[1][1][-2000:])
            sys.exit(2)
        if flaky_note:
            history_note = flaky_note
        if outs[0][0] != 1:
            # Not reproducible in isolation. It may depend on what the same worker executed before (state carried
            # between evaluations): re-run that whole shard twice; if the very same case fails again both times it is
            # a history-dependent violation and the replay file says how to reproduce it (re-run the shard).
            v0 = m["violations"][0]
            again = [shard_rerun(prop, cfg, binp, v0, known_ids, os.path.join(outdir, "rerun%d.json" % i)) for i in range(2)]
            if all(again):
                v0["history"] = {"note": "reproduces only after the cases the same worker executes before it; bin/vcheck replay re-runs that shard",
                                 "tier": v0.get("tier"), "shard": v0.get("shard"), "nshards": v0.get("nshards"), "seed": v0.get("seed")}
                os.remove(viol_paths[0])
                viol_paths[0] = write_replay(prop, v0)
                history_note = "history-dependent violation (state carried between evaluations): reproduced by re-running shard %s/%s twice" % (v0.get("shard"), v0.get("nshards"))
            elif race_path:
                lines.append("(a violation found by the exploration reproduced neither from its replay file nor by re-running its shard and is not reported; the data race above most likely explains it)")
                for pth in viol_paths:
                    os.remove(pth)
                viol_paths, m["violations"] = [], []
            else:
                print("HARNESS-ERROR: the first violation reproduces neither from its replay file (rc=%d) nor by re-running its shard" % outs[0][0])
                print(outs[0][1][-2000:])
                sys.exit(2)
    if race_path:
        viol_paths.append(race_path)
    for fid, hit in sorted(m["known"].items()):
        desc = next((k.get("description", "") for k in kf if k["id"] == fid), "")
        lines.append(f"KNOWN-FINDING: property={prop} {fid}: {desc} ({hit['count']} explored case(s) attributed)")
    if m["n_violations"] > 0:
        rc = 1
        for p in viol_paths[:5]:
            lines.append(f"VIOLATION property={prop} replay={p}")
        if history_note:
            lines.append(history_note)
        if m["violations"]:
            v0 = m["violations"][0]
            lines.append("first counterexample: " + json.dumps({k: v0.get(k) for k in ("check", "input", "choices", "observed", "expected", "explanation")})[:3000])

    wall = time.time() - t0
    level = cfg.get("level", "model_checking")
    cov = {
        "states": m["states"], "transitions": m["transitions"],
        "traces_validated_against_impl": m["traces_validated_against_impl"],
        "evaluations": m["evaluations"], "distinct_nontrivial": m["distinct_nontrivial"],
        "rule": cfg.get("rule", ""), "samples": m["samples"], "exhaustive": m["exhaustive"],
        "caps_hit": m["caps"], "counters": m["counters"], "bounds": m["notes"],
        "explanation": cfg.get("explanation", ""),
        "known_findings_attributed": {k: v["count"] for k, v in m["known"].items()},
        "workers": len(results), "worker_failures": errors[:3],
        "build": binfo,
    }
    if race_info is not None:
        cov["race_pass"] = {k: race_info.get(k) for k in ("races", "iterations", "rc", "error")}
        cov["race_pass"]["note"] = "sampling pass (free-running -race build of the same bodies); not part of the exhaustive claim"
    ev = {"property_id": prop, "tier": tier, "seed": seed, "level": level, "coverage": cov,
          "assumptions": cfg.get("assumptions", []), "wall_s": round(wall, 2), "violations": m["n_violations"]}
    try:
        validate_evidence(ev)
    except ValueError as e:
        if rc == 0:
            print("HARNESS-ERROR: evidence invalid:", e)
            sys.exit(2)
    if not a.no_evidence:
        os.makedirs(os.path.join(VERIF, "evidence"), exist_ok=True)
        json.dump(ev, open(os.path.join(VERIF, "evidence", prop + ".json"), "w"), indent=1)
    for ln in lines:
        print(ln)
    print(f"{prop} {tier}: evaluations={m['evaluations']} states={m['states']} transitions={m['transitions']} "
          f"nontrivial={m['distinct_nontrivial']} exhaustive={m['exhaustive']} violations={m['n_violations']} wall={wall:.1f}s")
    sys.exit(rc)


if __name__ == "__main__":
    main()
