#!/bin/sh
# usage: vseed_batch.sh <seed-name>...   -> .cache/seed_results/<name>.{confirm,check}.json
mkdir -p /verif/.cache/seed_results
for n in "$@"; do
  python3 /verif/tools/vseeded.py confirm /verif/seeded/$n > /verif/.cache/seed_results/$n.confirm.json 2>&1
  python3 /verif/tools/vseeded.py check /verif/seeded/$n > /verif/.cache/seed_results/$n.check.json 2>&1
  echo "$n confirmed=$(grep -c '"confirmed": true' /verif/.cache/seed_results/$n.confirm.json) caught=$(grep -c '"caught": true' /verif/.cache/seed_results/$n.check.json)"
done
