#!/bin/sh
# Build everything the checks need, offline, from files on disk only.
set -e
cd "$(dirname "$0")/.."
mkdir -p .cache/go-build .cache/bin evidence replays
exec python3 tools/setup.py
