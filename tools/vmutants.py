#!/usr/bin/env python3
"""vmutants: demonstrate detection. Applies each deliberate property-breaking change listed in
tools/mutants.json to a *copy* of the current file (supplied through the build overlay, /repo is
never touched), checks that the repository's own tests for the touched package still pass with it,
then runs the quick check and requires a VIOLATION.

  vmutants.py <ID> [--only name] [--skip-suite]
"""
import json
import os
import subprocess
import sys
import tempfile

HERE = os.path.dirname(os.path.abspath(__file__))
VERIF = os.path.dirname(HERE)
sys.path.insert(0, HERE)
import vbuild  # noqa: E402

REPO = vbuild.REPO
MUT = json.load(open(os.path.join(HERE, "mutants.json")))
if "--benign" in sys.argv:
    # benign refactorings: the property still holds, so the check must stay silent (exit 0)
    MUT = json.load(open(os.path.join(HERE, "benign.json")))


def apply(m, workdir):
    repl = {}
    for i, ed in enumerate(m["edits"]):
        src = os.path.join(REPO, ed["file"])
        cur = repl.get(src, src)
        text = open(cur).read()
        n = text.count(ed["old"])
        if n != ed.get("count", 1):
            raise SystemExit(f"mutant {m['name']}: {ed['old']!r} matched {n} times in {ed['file']}")
        text = text.replace(ed["old"], ed["new"])
        dst = os.path.join(workdir, f"{i}_" + os.path.basename(ed["file"]))
        open(dst, "w").write(text)
        repl[src] = dst
    return repl


def suite_passes(repl, pkgs):
    ov = os.path.join(os.path.dirname(next(iter(repl.values()))), "suite_overlay.json")
    json.dump({"Replace": repl}, open(ov, "w"))
    env = vbuild.goenv()
    p = subprocess.run(["go", "test", "-vet=off", "-count=1", "-overlay", ov] + pkgs, cwd=REPO, env=env,
                       capture_output=True, text=True)
    return p.returncode == 0, (p.stdout + p.stderr)[-1500:]


def main():
    import argparse
    ap = argparse.ArgumentParser()
    ap.add_argument("prop")
    ap.add_argument("--only")
    ap.add_argument("--skip-suite", action="store_true")
    ap.add_argument("--benign", action="store_true")
    a = ap.parse_args()
    results = []
    for m in MUT.get(a.prop, []):
        if a.only and m["name"] != a.only:
            continue
        with tempfile.TemporaryDirectory(dir=os.path.join(VERIF, ".cache")) as wd:
            repl = apply(m, wd)
            suite = None
            if not a.skip_suite:
                ok, out = suite_passes(repl, ["./..."])
                suite = ok
                if not ok:
                    print(f"[{a.prop}/{m['name']}] repository tests FAIL with this mutant (not a useful mutant)\n{out}")
            ex = os.path.join(wd, "extra.json")
            json.dump(repl, open(ex, "w"))
            env = dict(os.environ)
            env["VERIF_OVERLAY_EXTRA"] = ex
            env["VERIF_REPLAY_DIR"] = os.path.join(wd, "replays")
            env["VERIF_WORK"] = wd
            p = subprocess.run([os.path.join(VERIF, "bin", "vcheck"), a.prop, "--tier", "quick", "--no-evidence"],
                               env=env, capture_output=True, text=True)
            caught = p.returncode == 1 and "VIOLATION property=" + a.prop in p.stdout
            if a.benign:
                print(f"[{a.prop}/{m['name']}] BENIGN suite_passes={suite} check_rc={p.returncode} silent={p.returncode == 0}")
                if p.returncode != 0:
                    print(p.stdout[-1500:], p.stderr[-800:])
                results.append({"benign": m["name"], "suite_passes": suite, "silent": p.returncode == 0})
                continue
            first = next((ln for ln in p.stdout.splitlines() if ln.startswith("first counterexample")), "")
            print(f"[{a.prop}/{m['name']}] suite_passes={suite} check_rc={p.returncode} caught={caught}")
            if not caught:
                print(p.stdout[-1500:], p.stderr[-1500:])
            else:
                print("   ", first[:400])
            results.append({"mutant": m["name"], "suite_passes": suite, "caught": caught, "first": first[:1000]})
    os.makedirs(os.path.join(VERIF, "evidence"), exist_ok=True)
    evp = os.path.join(VERIF, "evidence", a.prop + ".mutants.json")
    if a.skip_suite and os.path.exists(evp):
        # keep what an earlier full run found out about the repository's own suite
        old = {r.get("mutant"): r.get("suite_passes") for r in json.load(open(evp))}
        for r in results:
            if r.get("suite_passes") is None:
                r["suite_passes"] = old.get(r.get("mutant"))
    if a.only and os.path.exists(evp):
        keep = [r for r in json.load(open(evp)) if r.get("mutant") not in {x.get("mutant") for x in results}]
        results = keep + results
    if a.benign:
        sys.exit(0 if all(r.get("silent", True) for r in results) else 1)
    json.dump(results, open(os.path.join(VERIF, "evidence", a.prop + ".mutants.json"), "w"), indent=1)
    sys.exit(0 if results and all(r["caught"] for r in results) else 1)


if __name__ == "__main__":
    main()
