#!/usr/bin/env python3
"""Regenerate MANIFEST.json from tools/checks.json (+ tools/manifest_base.json)."""
import json, os
HERE = os.path.dirname(os.path.abspath(__file__))
VERIF = os.path.dirname(HERE)
checks = json.load(open(os.path.join(HERE, "checks.json")))
base = json.load(open(os.path.join(HERE, "manifest_base.json")))
props = [json.loads(l)["id"] for l in open(os.path.join(VERIF, "properties.jsonl")) if l.strip()]
m = dict(base)
m["checks"] = []
for pid in props:
    c = checks.get(pid)
    if not c or c.get("disabled"):
        continue
    m["checks"].append({
        "property_id": pid,
        "quick_cmd": f"bin/vcheck {pid} --tier quick",
        "thorough_cmd": f"bin/vcheck {pid} --tier thorough",
        "evidence_file": f"/verif/evidence/{pid}.json",
        "replay_cmd_template": "bin/vcheck replay {path}",
        "engine": c["harness"],
        "level_claimed": {"category": c.get("level", "model_checking"), "text": c["level_text"], "design_ref": c.get("design_ref", "DESIGN.md §5 " + pid)},
        "level_note": c["level_note"],
        "technique": c["technique"],
    })
na = base.get("not_applicable_reasons", {})
m.pop("not_applicable_reasons", None)
m["not_applicable"] = [{"property_id": p, "reason": na.get(p, "check not built yet in this session; see DESIGN.md §5 for the plan")} for p in props if p not in {c["property_id"] for c in m["checks"]}]
json.dump(m, open(os.path.join(VERIF, "MANIFEST.json"), "w"), indent=1)
print("checks:", [c["property_id"] for c in m["checks"]], "not_applicable:", [n["property_id"] for n in m["not_applicable"]])
