#!/usr/bin/env python3
"""vbuild: generate the go build overlay and build one verification harness
from /repo's *current working tree*.

Nothing is written into /repo: harness packages are mapped *virtually* to
/repo/internal/zzverif/<pkg>/ (the only way to import the repository's
internal/... packages), package-main test files to /repo/cmd/docker-logql/,
and the runtime map-order seam to $GOROOT/src/runtime/ -- all through
`go build -overlay`.
"""
import json
import os
import re
import shutil
import subprocess
import sys

VERIF = os.path.dirname(os.path.dirname(os.path.abspath(__file__)))
REPO = os.environ.get("VERIF_REPO", "/repo")
CACHE = os.path.join(VERIF, ".cache")
MODPATH = "github.com/tdakkota/docker-logql"


def goenv():
    env = dict(os.environ)
    env.update(
        GOFLAGS="-mod=mod",
        GOPROXY="off",
        GOSUMDB="off",
        GOTOOLCHAIN="local",
        GOCACHE=os.path.join(CACHE, "go-build"),
        GODEBUG="goindex=0",
        CGO_ENABLED="0",
    )
    return env


def goroot():
    out = subprocess.run(["go", "env", "GOROOT"], env=goenv(), capture_output=True, text=True, check=True)
    return out.stdout.strip()


class BuildError(Exception):
    pass


def sub_exact(text, old, new, count, what):
    n = text.count(old)
    if n != count:
        raise BuildError(f"runtime seam: expected {count} occurrence(s) of {old!r} in {what}, found {n} "
                         f"(toolchain differs from go1.23.5?)")
    return text.replace(old, new)


SEAM_FILE = '''// Code added by /verif (verification only; never part of a production build).

package runtime

import "internal/abi"

// verifMapHook, when set, decides where a map iteration starts.
// It receives the number of entries, B and (for B == 0) the bitmap of occupied
// slots of the single bucket, and returns the value used instead of rand().
var verifMapHook func(count int, b uint8, occupied uint8) uintptr

// VerifSetMapHook installs (or, with nil, removes) the map-iteration hook.
func VerifSetMapHook(f func(count int, b uint8, occupied uint8) uintptr) {
	verifMapHook = f
}

// VerifSeam reports that this runtime carries the verification seam.
func VerifSeam() bool { return true }

func verifMapRand(h *hmap) uintptr {
	f := verifMapHook
	if f == nil || h.count < 2 {
		if f != nil {
			return 0
		}
		return uintptr(rand())
	}
	var occ uint8
	if h.B == 0 && h.buckets != nil {
		b := (*bmap)(h.buckets)
		for i := uintptr(0); i < abi.MapBucketCount; i++ {
			if !isEmpty(b.tophash[i]) {
				occ |= 1 << i
			}
		}
	}
	return f(h.count, h.B, occ)
}
'''


def gen_runtime_seam(outdir):
    """Patched copies of runtime/{map,alg,rand}.go + added verif_seam.go."""
    root = goroot()
    rt = os.path.join(root, "src", "runtime")
    os.makedirs(outdir, exist_ok=True)
    repl = {}

    m = open(os.path.join(rt, "map.go")).read()
    m = sub_exact(m, "\tr := uintptr(rand())\n", "\tr := verifMapRand(h)\n", 1, "map.go")
    m = sub_exact(m, "h.hash0 = uint32(rand())", "h.hash0 = 0x5eed5eed", 4, "map.go")
    m = sub_exact(m, "\tr := int(rand())\n", "\tr := int(verifMapRand(h))\n", 2, "map.go")
    p = os.path.join(outdir, "map.go")
    open(p, "w").write(m)
    repl[os.path.join(rt, "map.go")] = p

    a = open(os.path.join(rt, "alg.go")).read()
    a = sub_exact(a, "hashkey[i] = uintptr(bootstrapRand())", "hashkey[i] = uintptr(0x9e3779b97f4a7c15 + uint64(i))", 1, "alg.go")
    a = sub_exact(a, "key[i] = bootstrapRand()", "key[i] = 0x9e3779b97f4a7c15 * uint64(i+1)", 1, "alg.go")
    p = os.path.join(outdir, "alg.go")
    open(p, "w").write(a)
    repl[os.path.join(rt, "alg.go")] = p

    r = open(os.path.join(rt, "rand.go")).read()
    r = sub_exact(r, "func rand32() uint32 {\n\treturn uint32(rand())\n}", "func rand32() uint32 {\n\treturn 0x5eed5eed\n}", 1, "rand.go")
    p = os.path.join(outdir, "rand.go")
    open(p, "w").write(r)
    repl[os.path.join(rt, "rand.go")] = p

    p = os.path.join(outdir, "verif_seam.go")
    open(p, "w").write(SEAM_FILE)
    repl[os.path.join(rt, "verif_seam.go")] = p
    return repl


ERRGROUP_IMPORT = '"golang.org/x/sync/errgroup"'
SHIM_IMPORT = f'"{MODPATH}/internal/zzverif/vsync/errgroup"'


def gen_dockerlog_copy(outdir, extra_replace):
    """Copy of every non-test file in internal/dockerlog importing errgroup, import rewritten to the shim."""
    repl = {}
    d = os.path.join(REPO, "internal", "dockerlog")
    found = 0
    if not os.path.isdir(d):
        return repl, 0
    for fn in sorted(os.listdir(d)):
        if not fn.endswith(".go") or fn.endswith("_test.go"):
            continue
        src = os.path.join(d, fn)
        real = extra_replace.get(src, src)
        text = open(real).read()
        n = text.count(ERRGROUP_IMPORT)
        if n == 0:
            continue
        found += n
        text = text.replace(ERRGROUP_IMPORT, "errgroup " + SHIM_IMPORT)
        os.makedirs(outdir, exist_ok=True)
        p = os.path.join(outdir, "dockerlog_" + fn)
        open(p, "w").write(text)
        repl[src] = p
    return repl, found


def make_overlay(name, seam=False, race=False, extra_replace=None, shim=True):
    """Returns (overlay_path, info)."""
    extra_replace = dict(extra_replace or {})
    if os.environ.get("VERIF_OVERLAY_EXTRA"):
        # used by tools/vmutants.py: deliberate property-breaking changes applied to copies
        extra_replace.update(json.load(open(os.environ["VERIF_OVERLAY_EXTRA"])))
    gen = os.path.join(CACHE, "gen", f"{name}.{os.getpid()}")
    os.makedirs(gen, exist_ok=True)
    repl = {}
    # virtual harness packages
    # VERIF_HARNESS: a snapshot of /verif/harness, so that a long evaluation run (mutants, seeded changes) is not
    # disturbed by edits made to the harness sources meanwhile
    hroot = os.environ.get("VERIF_HARNESS") or os.path.join(VERIF, "harness")
    for dirpath, _dirs, files in os.walk(hroot):
        rel = os.path.relpath(dirpath, hroot)
        for fn in files:
            if not fn.endswith(".go"):
                continue
            src = os.path.join(dirpath, fn)
            if rel.split(os.sep)[0] == "cmdtest":
                dst = os.path.join(REPO, "cmd", "docker-logql", "zz_verif_" + fn)
            else:
                dst = os.path.join(REPO, "internal", "zzverif", rel, fn)
            repl[dst] = src
    info = {"errgroup_imports_rewritten": 0}
    if shim:
        r, found = gen_dockerlog_copy(gen, extra_replace)
        info["errgroup_imports_rewritten"] = found
        for k in r:
            extra_replace.pop(k, None)
        repl.update(r)
    if seam and not race:
        repl.update(gen_runtime_seam(os.path.join(gen, "runtime")))
    repl.update(extra_replace)
    ov = os.path.join(gen, "overlay.json")
    json.dump({"Replace": repl}, open(ov, "w"), indent=1)
    return ov, info


def build(harness, out, seam=False, race=False, test=False, extra_replace=None, tags=None):
    """Build harness main package (or the cmd test binary when test=True). Raises BuildError."""
    name = harness + ("_seam" if seam else "") + ("_race" if race else "")
    ov, info = make_overlay(name, seam=seam, race=race, extra_replace=extra_replace)
    tagl = ["verif"] + (["verifseam"] if seam and not race else []) + (tags or [])
    out = os.path.abspath(out)
    os.makedirs(os.path.dirname(out), exist_ok=True)
    env = goenv()
    if race:
        env["CGO_ENABLED"] = "1"
    if test:
        cmd = ["go", "test", "-c", "-vet=off", "-overlay", ov, "-tags", ",".join(tagl), "-o", out, "./cmd/docker-logql"]
    else:
        cmd = ["go", "build", "-overlay", ov, "-tags", ",".join(tagl), "-o", out, "./internal/zzverif/" + harness]
    if race:
        cmd.insert(2, "-race")
    p = subprocess.run(cmd, cwd=REPO, env=env, capture_output=True, text=True)
    shutil.rmtree(os.path.dirname(ov), ignore_errors=True)
    if p.returncode != 0:
        raise BuildError(p.stdout + p.stderr)
    return info


if __name__ == "__main__":
    import argparse
    ap = argparse.ArgumentParser()
    ap.add_argument("harness")
    ap.add_argument("-o", required=True)
    ap.add_argument("--seam", action="store_true")
    ap.add_argument("--race", action="store_true")
    ap.add_argument("--test", action="store_true")
    a = ap.parse_args()
    try:
        print(json.dumps(build(a.harness, a.o, seam=a.seam, race=a.race, test=a.test)))
    except BuildError as e:
        print("HARNESS-BUILD-ERROR\n" + str(e), file=sys.stderr)
        sys.exit(2)
