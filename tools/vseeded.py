#!/usr/bin/env python3
"""vseeded: confirm and evaluate an independently seeded property-breaking change.

  vseeded.py confirm <seeded-dir>      in a scratch worktree of /repo (outside /repo and /verif): the patch applies,
                                       the project builds, the repository's own suite passes with it, the
                                       demonstration fails with it and passes without it
  vseeded.py check <seeded-dir> [ids]  run the quick checks (default: the property named in meta.json) against a
                                       scratch worktree with the patch applied (VERIF_REPO), report which catch it
  vseeded.py check-repo <seeded-dir>   same, but the way it will be used: git -C /repo apply, run, git checkout -- .

<seeded-dir>/meta.json: {"property": "C04", "demo": {"file": "demo_test.go", "copy_to": "internal/dockerlog/zz_seed_demo_test.go",
                         "cmd": "go test -count=1 -run TestSeedDemo ./internal/dockerlog/"}, ...}
"""
import json
import os
import shutil
import subprocess
import sys

HERE = os.path.dirname(os.path.abspath(__file__))
VERIF = os.path.dirname(HERE)
REPO = "/repo"
SCRATCH = "/tmp/vseed_eval"

ENV = dict(os.environ, GOFLAGS="-mod=mod", GOPROXY="off", GOSUMDB="off", GOTOOLCHAIN="local")


def sh(cmd, cwd, timeout=1800):
    p = subprocess.run(cmd, cwd=cwd, env=ENV, shell=isinstance(cmd, str), capture_output=True, text=True, timeout=timeout)
    return p.returncode, (p.stdout + p.stderr)


def worktree(name):
    path = os.path.join(SCRATCH, name)
    if os.path.exists(path):
        subprocess.run(["git", "-C", REPO, "worktree", "remove", "--force", path], capture_output=True)
        shutil.rmtree(path, ignore_errors=True)
    os.makedirs(SCRATCH, exist_ok=True)
    rc, out = sh(["git", "-C", REPO, "worktree", "add", "--detach", path, "HEAD"], REPO)
    if rc != 0:
        raise SystemExit("worktree add failed: " + out)
    return path


def drop(path):
    subprocess.run(["git", "-C", REPO, "worktree", "remove", "--force", path], capture_output=True)
    shutil.rmtree(path, ignore_errors=True)


def confirm(sd):
    meta = json.load(open(os.path.join(sd, "meta.json")))
    name = os.path.basename(os.path.normpath(sd))
    wt = worktree("confirm_" + name)
    res = {}
    try:
        patch = os.path.join(sd, "patch.diff")
        demo = meta["demo"]
        dst = os.path.join(wt, demo["copy_to"])
        # without the change
        shutil.copy(os.path.join(sd, demo["file"]), dst)
        rc, out = sh(demo["cmd"], wt)
        res["demo_without_change_passes"] = rc == 0
        res["demo_without_tail"] = out[-400:]
        os.remove(dst)
        rc, out = sh(["git", "apply", patch], wt)
        res["patch_applies"] = rc == 0
        if rc != 0:
            res["apply_error"] = out[-500:]
            return res
        rc, out = sh("go build ./...", wt)
        res["builds"] = rc == 0
        rc, out = sh("go test -vet=off -count=1 ./...", wt)
        res["suite_passes_with_change"] = rc == 0
        if rc != 0:
            res["suite_tail"] = out[-800:]
        shutil.copy(os.path.join(sd, demo["file"]), dst)
        rc, out = sh(demo["cmd"], wt)
        res["demo_with_change_fails"] = rc != 0
        res["demo_with_tail"] = out[-600:]
    finally:
        drop(wt)
    res["confirmed"] = all(res.get(k) for k in ("demo_without_change_passes", "patch_applies", "builds", "suite_passes_with_change", "demo_with_change_fails"))
    return res


def run_checks(repo_dir, ids, tag):
    out = {}
    for pid in ids:
        env = dict(os.environ, VERIF_REPO=repo_dir, VERIF_WORK=os.path.join(VERIF, ".cache", "seedwork", tag), VERIF_REPLAY_DIR=os.path.join(VERIF, ".cache", "seedwork", tag, "replays"))
        p = subprocess.run([os.path.join(VERIF, "bin", "vcheck"), pid, "--tier", "quick", "--no-evidence"], env=env, capture_output=True, text=True)
        first = next((ln for ln in p.stdout.splitlines() if ln.startswith("first counterexample") or ln.startswith("data race")), "")
        out[pid] = {"rc": p.returncode, "caught": p.returncode == 1 and ("VIOLATION property=" + pid) in p.stdout, "first": first[:700]}
        if p.returncode == 2:
            out[pid]["harness_error"] = (p.stdout + p.stderr)[-600:]
    shutil.rmtree(os.path.join(VERIF, ".cache", "seedwork", tag), ignore_errors=True)
    return out


def check(sd, ids):
    meta = json.load(open(os.path.join(sd, "meta.json")))
    name = os.path.basename(os.path.normpath(sd))
    ids = ids or [meta["property"]]
    wt = worktree("check_" + name)
    try:
        rc, out = sh(["git", "apply", os.path.join(sd, "patch.diff")], wt)
        if rc != 0:
            return {"error": "patch does not apply: " + out[-300:]}
        return run_checks(wt, ids, name)
    finally:
        drop(wt)


def check_repo(sd, ids):
    meta = json.load(open(os.path.join(sd, "meta.json")))
    ids = ids or [meta["property"]]
    rc, out = sh(["git", "-C", REPO, "status", "--porcelain"], REPO)
    if out.strip():
        raise SystemExit("/repo is not clean: " + out)
    rc, out = sh(["git", "-C", REPO, "apply", os.path.join(os.path.abspath(sd), "patch.diff")], REPO)
    if rc != 0:
        return {"error": "patch does not apply: " + out[-300:]}
    try:
        return run_checks(REPO, ids, "repo_" + os.path.basename(os.path.normpath(sd)))
    finally:
        sh(["git", "-C", REPO, "checkout", "--", "."], REPO)


if __name__ == "__main__":
    mode, sd = sys.argv[1], os.path.abspath(sys.argv[2])
    ids = sys.argv[3:]
    if mode == "confirm":
        r = confirm(sd)
    elif mode == "check":
        r = check(sd, ids)
    elif mode == "check-repo":
        r = check_repo(sd, ids)
    else:
        raise SystemExit(__doc__)
    print(json.dumps(r, indent=1))
