#!/usr/bin/env python3
"""Warm the private build cache: build every harness configuration once."""
import json, os, sys, time
HERE = os.path.dirname(os.path.abspath(__file__))
sys.path.insert(0, HERE)
import vbuild
checks = json.load(open(os.path.join(HERE, "checks.json")))
done = set()
for pid, cfg in sorted(checks.items()):
    key = (cfg["harness"], bool(cfg.get("seam")), bool(cfg.get("test")))
    t0 = time.time()
    try:
        vbuild.build(cfg["harness"], os.path.join(vbuild.CACHE, "bin", pid, cfg["harness"]),
                     seam=key[1], test=key[2])
    except vbuild.BuildError as e:
        print("setup: build failed for", pid, "\n", e)
        sys.exit(1)
    print(f"setup: built {pid} ({cfg['harness']}) in {time.time()-t0:.1f}s")
    for extra in cfg.get("extra_builds", []):
        vbuild.build(extra["harness"], os.path.join(vbuild.CACHE, "bin", pid, extra["out"]), race=extra.get("race", False), seam=extra.get("seam", False))
print("setup ok")
