#!/usr/bin/env python3
"""Import seeded changes delivered by sub-agents (/tmp/seed/<P>/SEED/<k>) into /verif/seeded/<P>-<k>/, deriving
meta.json (package dir, test names, build tags) from the demo file and NOTES.md.
usage: vseed_import.py <property> [k ...]"""
import json, os, re, shutil, sys

def imp(prop, k):
    src = f"/tmp/seed/{prop}/SEED/{k}"
    dst = f"/verif/seeded/{prop}-{k}"
    if not os.path.isdir(src):
        return None
    os.makedirs(dst, exist_ok=True)
    for f in os.listdir(src):
        if os.path.isfile(os.path.join(src, f)):
            shutil.copy(os.path.join(src, f), os.path.join(dst, f))
    demos = [f for f in os.listdir(dst) if f.endswith(".go")]
    demo = demos[0]
    text = open(os.path.join(dst, demo)).read()
    notes = open(os.path.join(dst, "NOTES.md")).read() if os.path.exists(os.path.join(dst, "NOTES.md")) else ""
    tests = re.findall(r"^func (Test\w+)\(", text, re.M)
    tag = re.search(r"^//go:build (\w+)\s*$", text, re.M)
    pkgs = re.findall(r"\./((?:internal|cmd)/[\w/\-]+?)/?(?:\s|`|$)", notes)
    pkg = max(set(pkgs), key=pkgs.count) if pkgs else None
    race = "-race " if re.search(r"go test[^\n]*-race", notes) and prop == "C18" else ""
    meta = {
        "property": prop,
        "origin": "written by a fresh sub-agent that saw only the property text and a scratch worktree of the repository",
        "demo": {"file": demo, "copy_to": f"{pkg}/zz_seed_demo_test.go",
                 "cmd": f"go test {race}-vet=off -count=1 " + (f"-tags {tag.group(1)} " if tag else "") + "-run '^(" + "|".join(tests) + f")$' ./{pkg}/"},
    }
    old = os.path.join(dst, "meta.json")
    if os.path.exists(old):
        o = json.load(open(old))
        for key in ("needs_to_manifest", "ran", "caught_by", "confirmed"):
            if key in o:
                meta[key] = o[key]
    json.dump(meta, open(old, "w"), indent=1)
    return dst, meta["demo"]["cmd"]

if __name__ == "__main__":
    prop = sys.argv[1]
    ks = sys.argv[2:] or ["1", "2"]
    for k in ks:
        print(imp(prop, k))
