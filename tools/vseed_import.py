#!/usr/bin/env python3
"""Import seeded changes delivered by sub-agents (/tmp/seed/<P>/SEED/<k>) into /verif/seeded/<P>-<k>/, deriving
meta.json (package dir, test names, build tags) from the demo file and NOTES.md.
usage: vseed_import.py <property> [k ...]"""
import json, os, re, shutil, sys

def imp(prop, k, src=None, name=None):
    src = src or f"/tmp/seed/{prop}/SEED/{k}"
    dst = f"/verif/seeded/{name or prop + '-' + str(k)}"
    if not os.path.isdir(src):
        return None
    os.makedirs(dst, exist_ok=True)
    for f in os.listdir(src):
        if os.path.isfile(os.path.join(src, f)):
            shutil.copy(os.path.join(src, f), os.path.join(dst, f))
    demos = [f for f in os.listdir(dst) if f.endswith(".go")]
    demo = demos[0]
    text = open(os.path.join(dst, demo)).read()
    notes = open(os.path.join(dst, "NOTES.md")).read() if os.path.exists(os.path.join(dst, "NOTES.md")) else ""
    tests = re.findall(r"^func (Test\w+)\(", text, re.M)
    tag = re.search(r"^//go:build (\w+)\s*$", text, re.M)
    pkgs = re.findall(r"\./((?:internal|cmd)/[\w/\-]+?)/?(?:\s|`|$)", notes)
    pkg = max(set(pkgs), key=pkgs.count) if pkgs else None
    PK = {"logqlengine": "internal/logql/logqlengine", "logqlmetric": "internal/logql/logqlengine/logqlmetric", "dockerlog": "internal/dockerlog", "main": "cmd/docker-logql", "logql": "internal/logql", "lexer": "internal/logql/lexer", "otelstorage": "internal/otelstorage", "jsonexpr": "internal/logql/logqlengine/jsonexpr", "logqlpattern": "internal/logql/logqlengine/logqlpattern", "lexerql": "internal/lexerql", "iterators": "internal/iterators"}
    pm = re.search(r"^package (\w+)", text, re.M)
    if pm and pm.group(1).removesuffix("_test") in PK:
        pkg = PK[pm.group(1).removesuffix("_test")]
    race = "-race " if re.search(r"go test[^\n]*-race", notes) and prop == "C18" else ""
    meta = {
        "property": prop,
        "origin": "written by a fresh sub-agent that saw only the property text and a scratch worktree of the repository",
        "demo": {"file": demo, "copy_to": f"{pkg}/zz_seed_demo_test.go",
                 "cmd": f"go test {race}-vet=off -count=1 " + (f"-tags {tag.group(1)} " if tag else "") + "-run '^(" + "|".join(tests) + f")$' ./{pkg}/"},
    }
    old = os.path.join(dst, "meta.json")
    if os.path.exists(old):
        o = json.load(open(old))
        for key in ("needs_to_manifest", "ran", "caught_by", "confirmed"):
            if key in o:
                meta[key] = o[key]
    json.dump(meta, open(old, "w"), indent=1)
    return dst, meta["demo"]["cmd"]

WAVE2 = {  # /tmp/seed2/<dir>/SEED/<k> -> (property, seeded name)
    "C01": {1: ("C01", "C01-3"), 2: ("C01", "C01-4")},
    "C04": {1: ("C04", "C04-3"), 2: ("C04", "C04-4"), 3: ("C18", "C18-3")},
    "C09": {1: ("C09", "C09-3"), 2: ("C09", "C09-4"), 3: ("C10", "C10-3"), 4: ("C10", "C10-4")},
    "C11": {1: ("C11", "C11-3"), 2: ("C11", "C11-4"), 3: ("C12", "C12-3"), 4: ("C12", "C12-4"), 5: ("C13", "C13-3")},
    "C02": {1: ("C02", "C02-3"), 2: ("C02", "C02-4"), 3: ("C03", "C03-3"), 4: ("C14", "C14-3"), 5: ("C14", "C14-4"), 6: ("C20", "C20-3")},
    "C05": {1: ("C05", "C05-3"), 2: ("C05", "C05-4"), 3: ("C05", "C05-5"), 4: ("C17", "C17-3"), 5: ("C17", "C17-4")},
    "C06": {1: ("C06", "C06-3"), 2: ("C06", "C06-4"), 3: ("C07", "C07-3"), 4: ("C07", "C07-4"), 5: ("C08", "C08-3"), 6: ("C19", "C19-3"), 7: ("C19", "C19-4")},
    "C15": {1: ("C15", "C15-3"), 2: ("C15", "C15-4"), 3: ("C16", "C16-3"), 4: ("C16", "C16-4")},
}

if __name__ == "__main__":
    if sys.argv[1] in ("wave3", "wave4", "wave5", "wave6", "wave7", "wave8", "wave9", "wave10", "wave11", "wave12", "wave13", "wave14", "wave15", "wave16"):
        g = sys.argv[2]
        wv = sys.argv[1][4:]
        imported = False
        base = f"/tmp/seed{wv}/{g}/SEED"
        for k in sorted(int(x) for x in os.listdir(base) if x.isdigit()):
            pf = os.path.join(base, str(k), "PROPERTY")
            if not os.path.exists(pf):
                print("no PROPERTY file for", k)
                continue
            prop = open(pf).read().strip()
            marker = f"{g}/{k}" if wv == "3" else f"w{wv}/{g}/{k}"
            existing = [n for n in os.listdir("/verif/seeded") if n.startswith(prop + "-")]
            done = None
            for n in existing:
                m = json.load(open(f"/verif/seeded/{n}/meta.json"))
                if m.get("wave3_source") == marker:
                    done = n
            name = done or f"{prop}-{max([int(n.split('-')[1]) for n in existing] + [0]) + 1}"
            r = imp(prop, k, src=os.path.join(base, str(k)), name=name)
            mp = f"/verif/seeded/{name}/meta.json"
            m = json.load(open(mp)); m["wave3_source"] = marker; m["wave"] = int(wv); json.dump(m, open(mp, "w"), indent=1)
            print(r)
            imported = True
        sys.exit(0 if imported else 1)
    if sys.argv[1].startswith("wave") and sys.argv[1] != "wave2":
        print("unknown wave", sys.argv[1], file=sys.stderr)
        sys.exit(1)
    if sys.argv[1] == "wave2":
        d = sys.argv[2]
        for k, (prop, name) in sorted(WAVE2[d].items()):
            print(imp(prop, k, src=f"/tmp/seed2/{d}/SEED/{k}", name=name))
        sys.exit(0)
    prop = sys.argv[1]
    ks = sys.argv[2:] or ["1", "2"]
    for k in ks:
        print(imp(prop, k))
