#!/usr/bin/env python3
"""Confirm every seeded change and record in its meta.json what was run and which checks catch it.
usage: vseed_record.py [name ...]   (default: all of /verif/seeded); runs 4 seeds in parallel."""
import concurrent.futures, json, os, subprocess, sys
VERIF = "/verif"
EXTRA = {  # related checks that are also tried
    "C01": ["C19", "C06", "C05", "C20", "C03", "C07"], "C19": ["C01", "C06"], "C04": ["C18", "C02", "C03", "C14"], "C18": ["C04", "C10", "C02", "C11", "C12"], "C10": ["C18", "C11", "C12", "C09", "C20", "C06", "C08", "C02"], "C08": ["C14", "C04", "C02", "C01", "C07"], "C07": ["C08", "C01", "C05"],
    "C09": ["C17", "C02", "C05", "C12", "C08"], "C17": ["C20", "C03", "C04"], "C03": ["C14", "C04"], "C06": ["C01", "C07", "C05", "C08"], "C14": ["C03", "C09", "C17"], "C02": ["C20", "C04", "C18", "C16", "C01"], "C20": ["C02", "C06"], "C05": ["C13", "C17"], "C12": ["C18", "C13"], "C13": ["C12", "C05"], "C11": ["C10", "C05"], "C16": ["C02", "C09"], "C15": ["C03", "C04", "C01", "C07"],
}

def one(name):
    sd = os.path.join(VERIF, "seeded", name)
    meta = json.load(open(os.path.join(sd, "meta.json")))
    prop = meta["property"]
    conf = json.loads(subprocess.run([sys.executable, os.path.join(VERIF, "tools/vseeded.py"), "confirm", sd], capture_output=True, text=True).stdout or "{}")
    ids = [prop] + EXTRA.get(prop, [])
    chk = json.loads(subprocess.run([sys.executable, os.path.join(VERIF, "tools/vseeded.py"), "check", sd] + ids, capture_output=True, text=True).stdout or "{}")
    meta["confirmed"] = {k: v for k, v in conf.items() if not k.endswith("tail")}
    meta["ran"] = [
        "scratch worktree of /repo (outside /repo and /verif, removed afterwards): git apply patch.diff; go build ./...; go test -vet=off -count=1 ./... (must pass); " + meta["demo"]["cmd"] + " (must fail with the change, pass without it)",
    ] + [f"VERIF_REPO=<worktree with the patch> bin/vcheck {i} --tier quick" for i in ids]
    meta["caught_by"] = sorted(i for i, r in chk.items() if isinstance(r, dict) and r.get("caught"))
    meta["not_caught_by"] = sorted(i for i, r in chk.items() if isinstance(r, dict) and not r.get("caught"))
    first = chk.get(prop, {}).get("first", "") if isinstance(chk.get(prop), dict) else ""
    meta["first_counterexample"] = first[:600]
    json.dump(meta, open(os.path.join(sd, "meta.json"), "w"), indent=1)
    return name, conf.get("confirmed"), meta["caught_by"], meta["not_caught_by"]

if __name__ == "__main__":
    names = sys.argv[1:] or sorted(os.listdir(os.path.join(VERIF, "seeded")))
    with concurrent.futures.ThreadPoolExecutor(max_workers=4) as ex:
        for res in ex.map(one, names):
            print(*res, flush=True)
